//! Library half of the verification harness: engine, generators, reference models and the
//! per-property case functions. The `harness` binary drives them with proptest / enumeration; the
//! libFuzzer target in /verif/fuzz drives the same case functions coverage-guided.
pub mod engine;
pub mod gen;
pub mod props;
pub mod refmodel;
