//! Verification harness for Layout21: `harness <Cxx> [--tier quick|thorough] [--replay FILE]`
mod engine;
mod gen;
mod props;
mod refmodel;

use engine::{Run, Tier};

fn main() {
    let args: Vec<String> = std::env::args().skip(1).collect();
    engine::install_panic_hook();
    if args.first().map(|s| s.as_str()) == Some("--child") {
        let code = engine::child::child_main(&args[1..], &|p, s| props::lookup_case(p, s));
        std::process::exit(code);
    }
    if args.is_empty() {
        eprintln!("usage: harness <Cxx> [--tier quick|thorough] [--replay FILE]");
        std::process::exit(2);
    }
    let prop = args[0].clone();
    let mut tier = match std::env::var("VERIF_TIER").ok().as_deref() {
        Some("thorough") => Tier::Thorough,
        _ => Tier::Quick,
    };
    let mut replay: Option<String> = None;
    let mut i = 1;
    while i < args.len() {
        match args[i].as_str() {
            "--tier" => {
                i += 1;
                tier = if args.get(i).map(|s| s.as_str()) == Some("thorough") { Tier::Thorough } else { Tier::Quick };
            }
            "--replay" => {
                i += 1;
                replay = args.get(i).cloned();
            }
            other => {
                eprintln!("unknown argument {}", other);
                std::process::exit(2);
            }
        }
        i += 1;
    }
    let seed: u64 = std::env::var("VERIF_SEED").ok().and_then(|s| s.trim().parse::<i64>().ok()).map(|v| v as u64).unwrap_or(0);
    engine::capture_stdout();
    let def = match props::find(&prop) {
        Some(d) => d,
        None => {
            engine::emit(&format!("unknown property {}", prop));
            std::process::exit(2);
        }
    };
    if let Some(path) = replay {
        let rp = match engine::load_replay(&path) {
            Ok(r) => r,
            Err(e) => {
                engine::emit(&format!("cannot load replay: {}", e));
                std::process::exit(2);
            }
        };
        let f = match (def.case)(&rp.sub) {
            Some(f) => f,
            None => {
                engine::emit(&format!("unknown sub-check {} for {}", rp.sub, prop));
                std::process::exit(2);
            }
        };
        if let Some(s) = (def.render)(&rp.sub, &rp.choices) {
            engine::emit(&format!("  case: {}", s));
        }
        let code = engine::replay_case(&prop, &rp, &*f, &path);
        engine::child::cleanup_scratch();
        std::process::exit(code);
    }
    let mut run = Run::new(&prop, def.level, tier, seed);
    (def.run)(&mut run);
    let code = run.finish(&|s, c| (def.render)(s, c));
    engine::child::cleanup_scratch();
    std::process::exit(code);
}
