//! Verification harness for Layout21: `harness <Cxx> [--tier quick|thorough] [--replay FILE]`
use harness::{engine, props};
#[global_allocator]
static ALLOC: engine::alloc::Counting = engine::alloc::Counting;

use engine::{Run, Tier};

fn main() {
    let args: Vec<String> = std::env::args().skip(1).collect();
    engine::install_panic_hook();
    if args.first().map(|s| s.as_str()) == Some("--child") {
        let code = engine::child::child_main(&args[1..], &|p, s| props::lookup_case(p, s));
        std::process::exit(code);
    }
    if args.first().map(|s| s.as_str()) == Some("--dump-corpus") && args.len() == 3 {
        match args[1].as_str() {
            "C10" => props::c10::dump_corpus(&args[2]),
            "C11" => props::c11::dump_corpus(&args[2]),
            _ => {}
        }
        return;
    }
    if args.first().map(|s| s.as_str()) == Some("--fuzz-plan") && args.len() == 2 {
        for (sub, words, cost) in props::fuzz_plan(&args[1]) {
            println!("{} {} {}", sub, words, cost);
        }
        return;
    }
    if args.first().map(|s| s.as_str()) == Some("--dump-choice-corpus") && args.len() == 5 {
        props::dump_choice_corpus(&args[1], &args[2], &args[3], args[4].parse().unwrap_or(64));
        return;
    }
    if args.is_empty() {
        eprintln!("usage: harness <Cxx> [--tier quick|thorough] [--replay FILE]");
        std::process::exit(2);
    }
    let prop = args[0].clone();
    let mut tier = match std::env::var("VERIF_TIER").ok().as_deref() {
        Some("thorough") => Tier::Thorough,
        _ => Tier::Quick,
    };
    let mut replay: Option<String> = None;
    let mut inner = false;
    let mut minimize = false;
    let mut i = 1;
    while i < args.len() {
        match args[i].as_str() {
            "--tier" => {
                i += 1;
                tier = if args.get(i).map(|s| s.as_str()) == Some("thorough") { Tier::Thorough } else { Tier::Quick };
            }
            "--inner" => inner = true,
            "--minimize" => minimize = true,
            "--replay" => {
                i += 1;
                replay = args.get(i).cloned();
            }
            other => {
                eprintln!("unknown argument {}", other);
                std::process::exit(2);
            }
        }
        i += 1;
    }
    let seed: u64 = std::env::var("VERIF_SEED").ok().and_then(|s| s.trim().parse::<i64>().ok()).map(|v| v as u64).unwrap_or(0);
    if !inner && replay.is_none() && std::env::var("VERIF_NO_SUPERVISOR").is_err() {
        let level = match props::find(&prop) {
            Some(d) => d.level,
            None => {
                engine::emit(&format!("unknown property {}", prop));
                std::process::exit(2);
            }
        };
        let code = engine::journal::supervise(&prop, level, &args, tier.name(), seed);
        std::process::exit(code);
    }
    engine::capture_stdout();
    let def = match props::find(&prop) {
        Some(d) => d,
        None => {
            engine::emit(&format!("unknown property {}", prop));
            std::process::exit(2);
        }
    };
    if let Some(path) = replay {
        let rp = match engine::load_replay(&path) {
            Ok(r) => r,
            Err(e) => {
                engine::emit(&format!("cannot load replay: {}", e));
                std::process::exit(2);
            }
        };
        if let Some(sd) = rp.seed {
            // fixed base inputs are derived from the seed the failing run used
            std::env::set_var("VERIF_SEED", sd.to_string());
        }
        if props::lookup_case(&prop, &rp.sub).is_none() {
            engine::emit(&format!("unknown sub-check {} for {}", rp.sub, prop));
            std::process::exit(2);
        }
        if let Some(s) = engine::guard(|| (def.render)(rp.sub.strip_suffix("-fresh-thread").unwrap_or(&rp.sub), &rp.choices)).ok().flatten() {
            engine::emit(&format!("  case: {}", s));
        }
        let stack_kb = (engine::journal::WORKER_STACK / 1024) as u64;
        let mut rp = rp;
        if minimize {
            // Reduce a failing choice sequence found outside proptest (libFuzzer): shortest failing
            // prefix, then words zeroed / halved greedily, each trial in a child process.
            use engine::child::ChildOutcome as O;
            let fails = |c: &Vec<u32>| !matches!(engine::child::run_batch(&prop, &rp.sub, &[c.clone()], 20, stack_kb).first(), Some(O::Ok) | Some(O::Watchdog) | None);
            let mut cur = rp.choices.clone();
            if fails(&cur) {
                let (mut lo, mut hi) = (0usize, cur.len());
                while lo < hi {
                    let mid = (lo + hi) / 2;
                    if fails(&cur[..mid].to_vec()) {
                        hi = mid;
                    } else {
                        lo = mid + 1;
                    }
                }
                if fails(&cur[..hi].to_vec()) {
                    cur.truncate(hi);
                }
                let mut budget = 1500usize;
                for round in 0..2 {
                    for i in 0..cur.len() {
                        if cur[i] == 0 || budget == 0 {
                            continue;
                        }
                        budget -= 1;
                        let mut t = cur.clone();
                        t[i] = if round == 0 { 0 } else { cur[i] / 2 };
                        if fails(&t) {
                            cur = t;
                        }
                    }
                }
                while cur.last() == Some(&0) {
                    cur.pop();
                }
                if let Ok(txt) = std::fs::read_to_string(&path) {
                    if let Ok(mut v) = serde_json::from_str::<serde_json::Value>(&txt) {
                        v["choices"] = serde_json::Value::from(cur.clone());
                        v["minimized_from_words"] = serde_json::Value::from(rp.choices.len());
                        let _ = std::fs::write(&path, serde_json::to_string_pretty(&v).unwrap_or(txt));
                    }
                }
                engine::emit(&format!("  minimized: {} -> {} words", rp.choices.len(), cur.len()));
                rp.choices = cur;
            }
        }
        // The bare oracle, without proptest, in a child process (a crash must not take the report with it)
        let out = engine::child::run_batch(&prop, &rp.sub, &[rp.choices.clone()], 60, stack_kb);
        engine::child::cleanup_scratch();
        use engine::child::ChildOutcome as O;
        let code = match out.first() {
            Some(O::Ok) => {
                engine::emit(&format!("REPLAY-OK property={} sub={}", prop, rp.sub));
                0
            }
            Some(O::Watchdog) | None => {
                engine::emit(&format!("INCONCLUSIVE property={} replay did not finish", prop));
                2
            }
            Some(other) => {
                let m = match other {
                    O::Fail(m) => m.clone(),
                    O::Died(m) => format!("the call did not return: process {}", m),
                    O::CpuLimit => "the call did not return within 60 s of CPU time".to_string(),
                    O::Blocked => "the call does not return: every thread sleeps and no CPU time is consumed (it waits for a lock that is never released)".to_string(),
                    _ => String::new(),
                };
                engine::emit(&format!("  failure: {}", m));
                engine::emit(&format!("VIOLATION property={} replay={}", prop, path));
                1
            }
        };
        std::process::exit(code);
    }
    engine::journal::start_watchdog();
    let mut run = Run::new(&prop, def.level, tier, seed);
    (def.run)(&mut run);
    let code = run.finish(&|s, c| (def.render)(s.strip_suffix("-fresh-thread").unwrap_or(s), c));
    engine::child::cleanup_scratch();
    std::process::exit(code);
}
