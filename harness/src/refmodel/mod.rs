pub mod gdsreal;
pub mod geom;
pub mod gdsspec;
