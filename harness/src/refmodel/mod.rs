pub mod gdsreal;
pub mod gdsspec;
