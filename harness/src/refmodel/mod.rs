pub mod gdsreal;
