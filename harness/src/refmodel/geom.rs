//! R-geom: exact integer plane geometry. Ground truth for C12/C13 and for the flatteners of
//! C06/C07/C14. No floating point, no division.

pub type P = (i64, i64);

/// One of the eight right-angle orientations: reflect about the x-axis first, then rotate
/// counter-clockwise by `rot` quarter turns.
#[derive(Clone, Copy, Debug, PartialEq, Eq, Hash)]
pub struct Orient {
    pub refl: bool,
    pub rot: u8,
}
impl Orient {
    pub fn from_index(i: usize) -> Orient {
        Orient { refl: i >= 4, rot: (i % 4) as u8 }
    }
    pub fn angle(&self) -> f64 {
        90.0 * self.rot as f64
    }
    pub fn matrix(&self) -> [[i64; 2]; 2] {
        let r: [[i64; 2]; 2] = match self.rot % 4 {
            0 => [[1, 0], [0, 1]],
            1 => [[0, -1], [1, 0]],
            2 => [[-1, 0], [0, -1]],
            _ => [[0, 1], [-1, 0]],
        };
        if self.refl {
            // R * F, F = diag(1, -1)
            [[r[0][0], -r[0][1]], [r[1][0], -r[1][1]]]
        } else {
            r
        }
    }
}

/// Integer affine map p -> a p + b
#[derive(Clone, Copy, Debug, PartialEq, Eq, Hash)]
pub struct Affine {
    pub a: [[i64; 2]; 2],
    pub b: [i64; 2],
}
impl Affine {
    pub fn identity() -> Self {
        Affine { a: [[1, 0], [0, 1]], b: [0, 0] }
    }
    /// Placement: reflect, rotate, then translate by `loc`
    pub fn placement(loc: P, o: Orient) -> Self {
        Affine { a: o.matrix(), b: [loc.0, loc.1] }
    }
    pub fn apply(&self, p: P) -> P {
        (self.a[0][0] * p.0 + self.a[0][1] * p.1 + self.b[0], self.a[1][0] * p.0 + self.a[1][1] * p.1 + self.b[1])
    }
    /// `self` after `child`: (self ∘ child)(p) = self(child(p))
    pub fn then_child(&self, child: &Affine) -> Affine {
        let a = [
            [self.a[0][0] * child.a[0][0] + self.a[0][1] * child.a[1][0], self.a[0][0] * child.a[0][1] + self.a[0][1] * child.a[1][1]],
            [self.a[1][0] * child.a[0][0] + self.a[1][1] * child.a[1][0], self.a[1][0] * child.a[0][1] + self.a[1][1] * child.a[1][1]],
        ];
        let b = self.apply((child.b[0], child.b[1]));
        Affine { a, b: [b.0, b.1] }
    }
    pub fn det(&self) -> i64 {
        self.a[0][0] * self.a[1][1] - self.a[0][1] * self.a[1][0]
    }
}

fn cross(o: P, a: P, b: P) -> i128 {
    (a.0 - o.0) as i128 * (b.1 - o.1) as i128 - (a.1 - o.1) as i128 * (b.0 - o.0) as i128
}
pub fn on_segment(a: P, b: P, p: P) -> bool {
    cross(a, b, p) == 0 && p.0 >= a.0.min(b.0) && p.0 <= a.0.max(b.0) && p.1 >= a.1.min(b.1) && p.1 <= a.1.max(b.1)
}
/// Twice the signed area
pub fn area2(poly: &[P]) -> i128 {
    let n = poly.len();
    let mut s = 0i128;
    for i in 0..n {
        let (a, b) = (poly[i], poly[(i + 1) % n]);
        s += a.0 as i128 * b.1 as i128 - a.1 as i128 * b.0 as i128;
    }
    s
}
/// Closed-region membership: boundary test, then crossing number with the half-open rule.
pub fn in_polygon(poly: &[P], p: P) -> bool {
    let n = poly.len();
    for i in 0..n {
        if on_segment(poly[i], poly[(i + 1) % n], p) {
            return true;
        }
    }
    let mut inside = false;
    for i in 0..n {
        let (a, b) = (poly[i], poly[(i + 1) % n]);
        // edge straddles the horizontal line through p (half-open: lower end included)
        if (a.1 <= p.1) != (b.1 <= p.1) {
            // is the crossing strictly to the right of p?  orientation test, sign fixed by edge direction
            let c = cross(a, b, p);
            let upward = b.1 > a.1;
            if (upward && c > 0) || (!upward && c < 0) {
                inside = !inside;
            }
        }
    }
    inside
}
pub fn in_rect(p0: P, p1: P, p: P) -> bool {
    p.0 >= p0.0.min(p1.0) && p.0 <= p0.0.max(p1.0) && p.1 >= p0.1.min(p1.1) && p.1 <= p0.1.max(p1.1)
}

fn segs_intersect(a: P, b: P, c: P, d: P) -> bool {
    let d1 = cross(c, d, a).signum();
    let d2 = cross(c, d, b).signum();
    let d3 = cross(a, b, c).signum();
    let d4 = cross(a, b, d).signum();
    if d1 * d2 < 0 && d3 * d4 < 0 {
        return true;
    }
    (d1 == 0 && on_segment(c, d, a)) || (d2 == 0 && on_segment(c, d, b)) || (d3 == 0 && on_segment(a, b, c)) || (d4 == 0 && on_segment(a, b, d))
}
/// Remove consecutive duplicates and straight-through collinear vertices. Returns None if a
/// vertex is a 180-degree spike (the polygon is then not simple).
pub fn reduce(poly: &[P]) -> Option<Vec<P>> {
    let mut v: Vec<P> = vec![];
    for p in poly {
        if v.last() != Some(p) {
            v.push(*p);
        }
    }
    while v.len() > 1 && v.first() == v.last() {
        v.pop();
    }
    loop {
        let n = v.len();
        if n < 3 {
            return Some(v);
        }
        let mut removed = false;
        for i in 0..n {
            let (a, b, c) = (v[(i + n - 1) % n], v[i], v[(i + 1) % n]);
            if cross(a, b, c) == 0 {
                // collinear: straight-through if b lies between a and c, else a spike
                let dot = (b.0 - a.0) as i128 * (c.0 - b.0) as i128 + (b.1 - a.1) as i128 * (c.1 - b.1) as i128;
                if dot > 0 {
                    v.remove(i);
                    removed = true;
                    break;
                } else {
                    return None;
                }
            }
        }
        if !removed {
            return Some(v);
        }
    }
}
/// Simple polygon with non-zero area (collinear and consecutively repeated vertices allowed).
pub fn is_simple(poly: &[P]) -> bool {
    let v = match reduce(poly) {
        Some(v) => v,
        None => return false,
    };
    let n = v.len();
    if n < 3 || area2(&v) == 0 {
        return false;
    }
    for i in 0..n {
        for j in i + 1..n {
            let adjacent = j == i + 1 || (i == 0 && j == n - 1);
            let (a, b, c, d) = (v[i], v[(i + 1) % n], v[j], v[(j + 1) % n]);
            if adjacent {
                // adjacent edges may only share their common endpoint (guaranteed after `reduce`
                // removed collinear vertices, unless they fold back — excluded as spikes)
                continue;
            }
            if segs_intersect(a, b, c, d) {
                return false;
            }
        }
    }
    true
}

// ---- canonical forms ----------------------------------------------------------------------------
/// Canonical form of a closed polygon as a cyclic sequence modulo rotation and reversal
/// (an implied closing point equal to the first is dropped first).
pub fn canon_polygon(pts: &[P]) -> Vec<P> {
    let mut v: Vec<P> = pts.to_vec();
    if v.len() > 1 && v.first() == v.last() {
        v.pop();
    }
    let n = v.len();
    if n == 0 {
        return v;
    }
    let mut best: Option<Vec<P>> = None;
    for dir in 0..2 {
        let w: Vec<P> = if dir == 0 { v.clone() } else { v.iter().rev().cloned().collect() };
        for s in 0..n {
            let cand: Vec<P> = (0..n).map(|i| w[(s + i) % n]).collect();
            if best.as_ref().map(|b| cand < *b).unwrap_or(true) {
                best = Some(cand);
            }
        }
    }
    best.unwrap()
}
/// If the polygon (4 distinct corners) is an axis-aligned rectangle, its (min, max) corners.
pub fn as_rect(pts: &[P]) -> Option<(P, P)> {
    let mut v: Vec<P> = pts.to_vec();
    if v.len() > 1 && v.first() == v.last() {
        v.pop();
    }
    if v.len() != 4 {
        return None;
    }
    let xs: Vec<i64> = v.iter().map(|p| p.0).collect();
    let ys: Vec<i64> = v.iter().map(|p| p.1).collect();
    let (x0, x1) = (*xs.iter().min().unwrap(), *xs.iter().max().unwrap());
    let (y0, y1) = (*ys.iter().min().unwrap(), *ys.iter().max().unwrap());
    let want = canon_polygon(&[(x0, y0), (x1, y0), (x1, y1), (x0, y1)]);
    if canon_polygon(&v) == want {
        Some(((x0, y0), (x1, y1)))
    } else {
        None
    }
}
pub fn canon_path(pts: &[P]) -> Vec<P> {
    let rev: Vec<P> = pts.iter().rev().cloned().collect();
    if rev < pts.to_vec() {
        rev
    } else {
        pts.to_vec()
    }
}

// ---- Manhattan path zones --------------------------------------------------------------------------
#[derive(Clone, Copy, Debug, PartialEq, Eq)]
pub enum Zone {
    MustBeInside,
    MustBeOutside,
    Unasserted,
}
/// Zone of point `p` relative to a Manhattan path of width `w` (see DESIGN C13).
/// Inside: within w/2 of a segment measured across it (projection on the segment), or within w/2
/// of an interior joint. Outside: farther than w/2 (Euclidean) from every segment and not in the
/// w-square around an interior joint (the filled outer corner of a bend is left unasserted, as
/// are the cap zones at the two ends within Euclidean w/2 -- flush and round ends differ there).
pub fn path_zone(pts: &[P], w: i64, p: P) -> Zone {
    let n = pts.len();
    let mut all_far = true;
    for k in 0..n - 1 {
        let (a, b) = (pts[k], pts[k + 1]);
        let (x0, x1) = (a.0.min(b.0), a.0.max(b.0));
        let (y0, y1) = (a.1.min(b.1), a.1.max(b.1));
        let dx = if p.0 < x0 { x0 - p.0 } else if p.0 > x1 { p.0 - x1 } else { 0 };
        let dy = if p.1 < y0 { y0 - p.1 } else if p.1 > y1 { p.1 - y1 } else { 0 };
        // projection falls on the segment and perpendicular distance <= w/2
        if a.0 == b.0 && dy == 0 && 2 * dx <= w {
            return Zone::MustBeInside;
        }
        if a.1 == b.1 && dx == 0 && 2 * dy <= w {
            return Zone::MustBeInside;
        }
        // Euclidean distance to the (axis-parallel) segment is hypot(dx, dy)
        let (dx, dy) = (dx as i128, dy as i128);
        if 4 * (dx * dx + dy * dy) <= (w as i128) * (w as i128) {
            all_far = false;
        }
    }
    // within Euclidean distance w/2 of an interior joint: inside; within the w-square around it: unasserted
    for k in 1..n.saturating_sub(1) {
        let j = pts[k];
        let (dx, dy) = ((p.0 - j.0) as i128, (p.1 - j.1) as i128);
        if 4 * (dx * dx + dy * dy) <= (w as i128) * (w as i128) {
            return Zone::MustBeInside;
        }
        if 2 * dx.abs().max(dy.abs()) <= w as i128 {
            all_far = false;
        }
    }
    if all_far {
        Zone::MustBeOutside
    } else {
        Zone::Unasserted
    }
}
