//! R-real: exact integer model of the GDSII eight-byte real.
//!
//! value = (-1)^s * M * 16^(E-64) / 2^56, M < 2^56, E in 0..=127. Everything here is decided on
//! integers; no floating-point operation takes part in a verdict.

/// Is `x` inside the range the property quantifies over (or zero)?
pub fn in_range(x: f64) -> bool {
    if x == 0.0 {
        return true;
    }
    if !x.is_finite() {
        return false;
    }
    let a = x.abs();
    // the normalised reals span 16^-65 = 2^-260 (mantissa 1/16 at exponent byte 0) <= |x| < 16^63 = 2^252;
    // decided on the exponent field
    let e = ((a.to_bits() >> 52) & 0x7ff) as i64 - 1023;
    let subnormal = (a.to_bits() >> 52) & 0x7ff == 0;
    !subnormal && e >= -260 && e < 252
}

/// The unique normalised encoding of an in-range double (exact: 53 significant bits plus a
/// shift of at most three always fit the 56-bit mantissa).
pub fn encode(x: f64) -> u64 {
    if x == 0.0 {
        return 0;
    }
    let bits = x.to_bits();
    let sign = bits >> 63;
    let t = ((bits >> 52) & 0x7ff) as i64 - 1023; // x in [2^t, 2^(t+1))
    let m = (bits & ((1u64 << 52) - 1)) | (1u64 << 52); // 53-bit significand, value m * 2^(t-52)
    if t == 252 && m == 1u64 << 52 {
        // 16^63, one step beyond the range: the double the largest real (mantissa all ones) rounds to
        return (sign << 63) | 0x7fff_ffff_ffff_ffff;
    }
    let e16 = t.div_euclid(4) + 1; // E - 64
    let s = t + 4 - 4 * e16; // 0..=3
    debug_assert!((0..=3).contains(&s));
    let mant = m << s; // top bit in 52..=55
    if e16 < -64 {
        // below the normalised range: exponent byte 0 and a mantissa with leading zero digits; only
        // callers that know the value is a multiple of 2^-312 come here (the shift must lose nothing)
        let sh = 4 * (-64 - e16) as u32;
        debug_assert!(sh < 56 && mant & ((1u64 << sh) - 1) == 0, "not representable exactly");
        return (sign << 63) | (mant >> sh);
    }
    (sign << 63) | (((e16 + 64) as u64) << 56) | mant
}

/// Correctly rounded (nearest, ties to even) double of an eight-byte real, from its exact value.
pub fn decode(b: u64) -> f64 {
    let sign = b >> 63;
    let e = ((b >> 56) & 0x7f) as i64;
    let m = b & ((1u64 << 56) - 1);
    if m == 0 {
        return if sign == 1 { -0.0 } else { 0.0 };
    }
    // value = m * 2^p
    let p = 4 * (e - 64) - 56;
    let nbits = 64 - m.leading_zeros() as i64;
    let (q, p2) = if nbits <= 53 {
        (m, p)
    } else {
        let sh = nbits - 53;
        let mut q = m >> sh;
        let rem = m & ((1u64 << sh) - 1);
        let half = 1u64 << (sh - 1);
        if rem > half || (rem == half && (q & 1) == 1) {
            q += 1;
        }
        (q, p + sh)
    };
    // q < 2^53 + 1; assemble q * 2^p2 exactly from bits (always a normal double here)
    let qbits = 64 - q.leading_zeros() as i64; // 1..=54
    let top = qbits - 1; // q in [2^top, 2^(top+1))
    let frac = if top <= 52 { (q << (52 - top)) & ((1u64 << 52) - 1) } else { (q >> (top - 52)) & ((1u64 << 52) - 1) };
    let exp = top + p2 + 1023;
    assert!(exp > 0 && exp < 2047, "gds real outside the normal double range?");
    f64::from_bits((sign << 63) | ((exp as u64) << 52) | frac)
}

pub fn is_normalised(b: u64) -> bool {
    b == 0 || (b >> 52) & 0xf != 0
}
/// Number of significant bits of the mantissa (distance between highest and lowest set bit + 1)
pub fn sig_bits(b: u64) -> u32 {
    let m = b & ((1u64 << 56) - 1);
    if m == 0 {
        0
    } else {
        64 - m.leading_zeros() - m.trailing_zeros()
    }
}
/// Exact comparison of a GDS real and a double: do they denote the same real number?
pub fn same_value(b: u64, x: f64) -> bool {
    let m = b & ((1u64 << 56) - 1);
    if m == 0 {
        return x == 0.0;
    }
    if x == 0.0 || !x.is_finite() {
        return false;
    }
    if (b >> 63) != (x.to_bits() >> 63) {
        return false;
    }
    let e = ((b >> 56) & 0x7f) as i64;
    let p = 4 * (e - 64) - 56; // b = m * 2^p
    let xb = x.to_bits();
    let xe = ((xb >> 52) & 0x7ff) as i64;
    if xe == 0 {
        return false; // subnormal: far below any gds real
    }
    let xm = (xb & ((1u64 << 52) - 1)) | (1u64 << 52);
    let xp = xe - 1075; // x = xm * 2^xp
    // compare m*2^p with xm*2^xp after removing trailing zeros
    let (m, p) = (m >> m.trailing_zeros(), p + m.trailing_zeros() as i64);
    let (xm, xp) = (xm >> xm.trailing_zeros(), xp + xm.trailing_zeros() as i64);
    m == xm && p == xp
}
