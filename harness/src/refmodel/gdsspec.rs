//! R-gdsspec: an independent GDSII Stream codec written from the Calma specification.
//! Shares no code with `gds21`. Encoder (model -> bytes, with lexical options) and a strict
//! decoder/recogniser (bytes -> model, rejecting anything outside the stream BNF).

use crate::gen::gds::*;
use crate::refmodel::gdsreal as R;

// (record type, data type) as the specification assigns them
pub const HEADER: (u8, u8) = (0x00, 2);
pub const BGNLIB: (u8, u8) = (0x01, 2);
pub const LIBNAME: (u8, u8) = (0x02, 6);
pub const UNITS: (u8, u8) = (0x03, 5);
pub const ENDLIB: (u8, u8) = (0x04, 0);
pub const BGNSTR: (u8, u8) = (0x05, 2);
pub const STRNAME: (u8, u8) = (0x06, 6);
pub const ENDSTR: (u8, u8) = (0x07, 0);
pub const BOUNDARY: (u8, u8) = (0x08, 0);
pub const PATH: (u8, u8) = (0x09, 0);
pub const SREF: (u8, u8) = (0x0A, 0);
pub const AREF: (u8, u8) = (0x0B, 0);
pub const TEXT: (u8, u8) = (0x0C, 0);
pub const LAYER: (u8, u8) = (0x0D, 2);
pub const DATATYPE: (u8, u8) = (0x0E, 2);
pub const WIDTH: (u8, u8) = (0x0F, 3);
pub const XY: (u8, u8) = (0x10, 3);
pub const ENDEL: (u8, u8) = (0x11, 0);
pub const SNAME: (u8, u8) = (0x12, 6);
pub const COLROW: (u8, u8) = (0x13, 2);
pub const NODE: (u8, u8) = (0x15, 0);
pub const TEXTTYPE: (u8, u8) = (0x16, 2);
pub const PRESENTATION: (u8, u8) = (0x17, 1);
pub const STRING: (u8, u8) = (0x19, 6);
pub const STRANS: (u8, u8) = (0x1A, 1);
pub const MAG: (u8, u8) = (0x1B, 5);
pub const ANGLE: (u8, u8) = (0x1C, 5);
pub const REFLIBS: (u8, u8) = (0x1F, 6);
pub const FONTS: (u8, u8) = (0x20, 6);
pub const PATHTYPE: (u8, u8) = (0x21, 2);
pub const GENERATIONS: (u8, u8) = (0x22, 2);
pub const ATTRTABLE: (u8, u8) = (0x23, 6);
pub const ELFLAGS: (u8, u8) = (0x26, 1);
pub const NODETYPE: (u8, u8) = (0x2A, 2);
pub const PROPATTR: (u8, u8) = (0x2B, 2);
pub const PROPVALUE: (u8, u8) = (0x2C, 6);
pub const BOX: (u8, u8) = (0x2D, 0);
pub const BOXTYPE: (u8, u8) = (0x2E, 2);
pub const PLEX: (u8, u8) = (0x2F, 3);
pub const BGNEXTN: (u8, u8) = (0x30, 3);
pub const ENDEXTN: (u8, u8) = (0x31, 3);
pub const FORMAT: (u8, u8) = (0x36, 2);
pub const MASK: (u8, u8) = (0x37, 6);
pub const ENDMASKS: (u8, u8) = (0x38, 0);
pub const LIBDIRSIZE: (u8, u8) = (0x39, 2);
pub const SRFNAME: (u8, u8) = (0x3A, 6);
pub const LIBSECUR: (u8, u8) = (0x3B, 2);

pub fn rec_name(rt: u8) -> &'static str {
    match rt {
        0x00 => "HEADER", 0x01 => "BGNLIB", 0x02 => "LIBNAME", 0x03 => "UNITS", 0x04 => "ENDLIB", 0x05 => "BGNSTR",
        0x06 => "STRNAME", 0x07 => "ENDSTR", 0x08 => "BOUNDARY", 0x09 => "PATH", 0x0A => "SREF", 0x0B => "AREF",
        0x0C => "TEXT", 0x0D => "LAYER", 0x0E => "DATATYPE", 0x0F => "WIDTH", 0x10 => "XY", 0x11 => "ENDEL",
        0x12 => "SNAME", 0x13 => "COLROW", 0x15 => "NODE", 0x16 => "TEXTTYPE", 0x17 => "PRESENTATION", 0x19 => "STRING",
        0x1A => "STRANS", 0x1B => "MAG", 0x1C => "ANGLE", 0x1F => "REFLIBS", 0x20 => "FONTS", 0x21 => "PATHTYPE",
        0x22 => "GENERATIONS", 0x23 => "ATTRTABLE", 0x26 => "ELFLAGS", 0x2A => "NODETYPE", 0x2B => "PROPATTR",
        0x2C => "PROPVALUE", 0x2D => "BOX", 0x2E => "BOXTYPE", 0x2F => "PLEX", 0x30 => "BGNEXTN", 0x31 => "ENDEXTN",
        0x36 => "FORMAT", 0x37 => "MASK", 0x38 => "ENDMASKS", 0x39 => "LIBDIRSIZE", 0x3A => "SRFNAME", 0x3B => "LIBSECUR",
        _ => "?",
    }
}

// ------------------------------------------------------------------------------------------
// Encoder
// ------------------------------------------------------------------------------------------
#[derive(Clone, Debug, PartialEq, Eq, Hash)]
pub enum LibExtra {
    LibDirSize,
    SrfName,
    LibSecur,
    RefLibs,
    Fonts,
    AttrTable,
    Generations,
    FormatArchive,
    FormatFiltered,
}
pub const LIB_EXTRAS: &[LibExtra] = &[
    LibExtra::LibDirSize,
    LibExtra::SrfName,
    LibExtra::LibSecur,
    LibExtra::RefLibs,
    LibExtra::Fonts,
    LibExtra::AttrTable,
    LibExtra::Generations,
    LibExtra::FormatArchive,
    LibExtra::FormatFiltered,
];

#[derive(Clone, Debug, Default)]
pub struct EncOpts {
    /// bytes after the ENDLIB record (tape-block padding or anything else)
    pub trailing: Vec<u8>,
    /// one library-level optional record, placed where the BNF allows it
    pub extra: Option<LibExtra>,
}

pub struct Enc {
    pub out: Vec<u8>,
    /// byte offset of every record
    pub offsets: Vec<usize>,
}
impl Enc {
    pub fn new() -> Self {
        Enc { out: vec![], offsets: vec![] }
    }
    pub fn rec(&mut self, t: (u8, u8), payload: &[u8]) {
        assert!(payload.len() % 2 == 0 && payload.len() + 4 <= 0xFFFF, "reference encoder: record too long");
        self.offsets.push(self.out.len());
        let len = (payload.len() + 4) as u16;
        self.out.extend_from_slice(&len.to_be_bytes());
        self.out.push(t.0);
        self.out.push(t.1);
        self.out.extend_from_slice(payload);
    }
    pub fn i16s(&mut self, t: (u8, u8), v: &[i16]) {
        let p: Vec<u8> = v.iter().flat_map(|x| x.to_be_bytes()).collect();
        self.rec(t, &p);
    }
    pub fn i32s(&mut self, t: (u8, u8), v: &[i32]) {
        let p: Vec<u8> = v.iter().flat_map(|x| x.to_be_bytes()).collect();
        self.rec(t, &p);
    }
    pub fn string(&mut self, t: (u8, u8), s: &str) {
        let mut p = s.as_bytes().to_vec();
        if p.len() % 2 == 1 {
            p.push(0);
        }
        self.rec(t, &p);
    }
    pub fn reals(&mut self, t: (u8, u8), v: &[u64]) {
        let p: Vec<u8> = v.iter().flat_map(|bits| R::encode(f64::from_bits(*bits)).to_be_bytes()).collect();
        self.rec(t, &p);
    }
    fn common_head(&mut self, c: &MCommon) {
        if let Some((a, b)) = c.elflags {
            self.rec(ELFLAGS, &[a, b]);
        }
        if let Some(p) = c.plex {
            self.i32s(PLEX, &[p]);
        }
    }
    fn tail(&mut self, c: &MCommon) {
        for (a, v) in &c.props {
            self.i16s(PROPATTR, &[*a]);
            self.string(PROPVALUE, v);
        }
        self.rec(ENDEL, &[]);
    }
    fn strans(&mut self, s: &Option<MStrans>) {
        if let Some(s) = s {
            let w: u16 = ((s.reflected as u16) << 15) | ((s.abs_mag as u16) << 2) | ((s.abs_angle as u16) << 1);
            self.rec(STRANS, &w.to_be_bytes());
            if let Some(m) = s.mag {
                self.reals(MAG, &[m]);
            }
            if let Some(a) = s.angle {
                self.reals(ANGLE, &[a]);
            }
        }
    }
    fn xy(&mut self, pts: &[(i32, i32)]) {
        let v: Vec<i32> = pts.iter().flat_map(|p| [p.0, p.1]).collect();
        self.i32s(XY, &v);
    }
    pub fn elem(&mut self, e: &MElem) {
        match e {
            MElem::Boundary { layer, datatype, xy, c } => {
                self.rec(BOUNDARY, &[]);
                self.common_head(c);
                self.i16s(LAYER, &[*layer]);
                self.i16s(DATATYPE, &[*datatype]);
                self.xy(xy);
                self.tail(c);
            }
            MElem::Path { layer, datatype, xy, path_type, width, begin_extn, end_extn, c } => {
                self.rec(PATH, &[]);
                self.common_head(c);
                self.i16s(LAYER, &[*layer]);
                self.i16s(DATATYPE, &[*datatype]);
                if let Some(p) = path_type {
                    self.i16s(PATHTYPE, &[*p]);
                }
                if let Some(w) = width {
                    self.i32s(WIDTH, &[*w]);
                }
                if let Some(b) = begin_extn {
                    self.i32s(BGNEXTN, &[*b]);
                }
                if let Some(b) = end_extn {
                    self.i32s(ENDEXTN, &[*b]);
                }
                self.xy(xy);
                self.tail(c);
            }
            MElem::Sref { name, xy, strans, c } => {
                self.rec(SREF, &[]);
                self.common_head(c);
                self.string(SNAME, name);
                self.strans(strans);
                self.xy(&[*xy]);
                self.tail(c);
            }
            MElem::Aref { name, xy, cols, rows, strans, c } => {
                self.rec(AREF, &[]);
                self.common_head(c);
                self.string(SNAME, name);
                self.strans(strans);
                self.i16s(COLROW, &[*cols, *rows]);
                self.xy(&xy[..]);
                self.tail(c);
            }
            MElem::Text { string, layer, texttype, xy, presentation, path_type, width, strans, c } => {
                self.rec(TEXT, &[]);
                self.common_head(c);
                self.i16s(LAYER, &[*layer]);
                self.i16s(TEXTTYPE, &[*texttype]);
                if let Some((a, b)) = presentation {
                    self.rec(PRESENTATION, &[*a, *b]);
                }
                if let Some(p) = path_type {
                    self.i16s(PATHTYPE, &[*p]);
                }
                if let Some(w) = width {
                    self.i32s(WIDTH, &[*w]);
                }
                self.strans(strans);
                self.xy(&[*xy]);
                self.string(STRING, string);
                self.tail(c);
            }
            MElem::Node { layer, nodetype, xy, c } => {
                self.rec(NODE, &[]);
                self.common_head(c);
                self.i16s(LAYER, &[*layer]);
                self.i16s(NODETYPE, &[*nodetype]);
                self.xy(xy);
                self.tail(c);
            }
            MElem::Box { layer, boxtype, xy, c } => {
                self.rec(BOX, &[]);
                self.common_head(c);
                self.i16s(LAYER, &[*layer]);
                self.i16s(BOXTYPE, &[*boxtype]);
                self.xy(&xy[..]);
                self.tail(c);
            }
        }
    }
    fn extra(&mut self, x: &LibExtra) {
        match x {
            LibExtra::LibDirSize => self.i16s(LIBDIRSIZE, &[12]),
            LibExtra::SrfName => self.string(SRFNAME, "SPACING.RULES"),
            LibExtra::LibSecur => self.i16s(LIBSECUR, &[1, 2, 3]),
            LibExtra::RefLibs => {
                let mut p = vec![0u8; 88];
                p[..4].copy_from_slice(b"REF1");
                p[44..48].copy_from_slice(b"REF2");
                self.rec(REFLIBS, &p);
            }
            LibExtra::Fonts => {
                let mut p = vec![0u8; 176];
                p[..5].copy_from_slice(b"FONT1");
                self.rec(FONTS, &p);
            }
            LibExtra::AttrTable => self.string(ATTRTABLE, "ATTRS.TBL"),
            LibExtra::Generations => self.i16s(GENERATIONS, &[3]),
            LibExtra::FormatArchive => self.i16s(FORMAT, &[0]),
            LibExtra::FormatFiltered => {
                self.i16s(FORMAT, &[1]);
                self.string(MASK, "1 5-7 10 ; 0-63");
                self.rec(ENDMASKS, &[]);
            }
        }
    }
}

pub fn encode(m: &MLib, o: &EncOpts) -> Enc {
    let mut e = Enc::new();
    e.i16s(HEADER, &[m.version]);
    e.i16s(BGNLIB, &m.dates);
    if let Some(x) = &o.extra {
        if matches!(x, LibExtra::LibDirSize | LibExtra::SrfName | LibExtra::LibSecur) {
            e.extra(x);
        }
    }
    e.string(LIBNAME, &m.name);
    if let Some(x) = &o.extra {
        if !matches!(x, LibExtra::LibDirSize | LibExtra::SrfName | LibExtra::LibSecur) {
            e.extra(x);
        }
    }
    e.reals(UNITS, &[m.units.0, m.units.1]);
    for s in &m.structs {
        e.i16s(BGNSTR, &s.dates);
        e.string(STRNAME, &s.name);
        for el in &s.elems {
            e.elem(el);
        }
        e.rec(ENDSTR, &[]);
    }
    e.rec(ENDLIB, &[]);
    e.offsets.push(e.out.len());
    e.out.extend_from_slice(&o.trailing);
    e
}

/// Can the reference encoder represent this model at all (every record within 65535 bytes)?
pub fn fits_records(m: &MLib) -> bool {
    let s_ok = |s: &str| s.len() + s.len() % 2 + 4 <= 0xFFFF;
    if !s_ok(&m.name) {
        return false;
    }
    for s in &m.structs {
        if !s_ok(&s.name) {
            return false;
        }
        for e in &s.elems {
            if !e.strings().iter().all(|t| s_ok(t)) {
                return false;
            }
            let n = match e {
                MElem::Boundary { xy, .. } | MElem::Path { xy, .. } | MElem::Node { xy, .. } => xy.len(),
                _ => 0,
            };
            if n * 8 + 4 > 0xFFFF {
                return false;
            }
        }
    }
    true
}

// ------------------------------------------------------------------------------------------
// Strict decoder / recogniser
// ------------------------------------------------------------------------------------------
#[derive(Clone, Debug)]
pub struct Rec<'a> {
    pub rt: u8,
    pub dt: u8,
    pub data: &'a [u8],
    pub off: usize,
}

/// Split bytes into records, checking every length field. Stops after ENDLIB and returns the
/// offset of the first byte after it.
pub fn split_records(b: &[u8]) -> Result<(Vec<Rec<'_>>, usize), String> {
    let mut v = vec![];
    let mut i = 0usize;
    loop {
        if i + 4 > b.len() {
            return Err(format!("stream ends at byte {} without an ENDLIB record", i));
        }
        let len = u16::from_be_bytes([b[i], b[i + 1]]) as usize;
        if len < 4 || len % 2 != 0 {
            return Err(format!("record at byte {}: length field {} (must be even and >= 4)", i, len));
        }
        if i + len > b.len() {
            return Err(format!("record at byte {}: length {} runs past the end of the stream ({} bytes)", i, len, b.len()));
        }
        let r = Rec { rt: b[i + 2], dt: b[i + 3], data: &b[i + 4..i + len], off: i };
        i += len;
        let end = (r.rt, r.dt) == ENDLIB;
        v.push(r);
        if end {
            return Ok((v, i));
        }
    }
}

struct P<'a> {
    recs: Vec<Rec<'a>>,
    pos: usize,
}
impl<'a> P<'a> {
    fn peek(&self) -> Result<&Rec<'a>, String> {
        self.recs.get(self.pos).ok_or_else(|| "records exhausted".to_string())
    }
    fn at(&self, t: (u8, u8)) -> bool {
        self.recs.get(self.pos).map(|r| r.rt == t.0).unwrap_or(false)
    }
    /// Take the next record, which must be of type `t` with the datatype the spec assigns.
    fn take(&mut self, t: (u8, u8), fixed_len: Option<usize>) -> Result<Rec<'a>, String> {
        let r = self.peek()?.clone();
        if r.rt != t.0 {
            return Err(format!("record at byte {}: expected {} but found {} (0x{:02x})", r.off, rec_name(t.0), rec_name(r.rt), r.rt));
        }
        if r.dt != t.1 {
            return Err(format!("record {} at byte {}: data type {} but the specification assigns {}", rec_name(r.rt), r.off, r.dt, t.1));
        }
        if let Some(n) = fixed_len {
            if r.data.len() != n {
                return Err(format!("record {} at byte {}: payload {} bytes, specification says {}", rec_name(r.rt), r.off, r.data.len(), n));
            }
        }
        self.pos += 1;
        Ok(r)
    }
    fn opt(&mut self, t: (u8, u8), fixed_len: Option<usize>) -> Result<Option<Rec<'a>>, String> {
        if self.at(t) {
            Ok(Some(self.take(t, fixed_len)?))
        } else {
            Ok(None)
        }
    }
}
fn i16_at(d: &[u8], i: usize) -> i16 {
    i16::from_be_bytes([d[2 * i], d[2 * i + 1]])
}
fn i32_at(d: &[u8], i: usize) -> i32 {
    i32::from_be_bytes([d[4 * i], d[4 * i + 1], d[4 * i + 2], d[4 * i + 3]])
}
fn u64_at(d: &[u8], i: usize) -> u64 {
    u64::from_be_bytes(d[8 * i..8 * i + 8].try_into().unwrap())
}
fn string_of(r: &Rec) -> Result<String, String> {
    let mut d = r.data;
    if let Some((&0, head)) = d.split_last() {
        d = head;
    }
    if d.contains(&0) {
        return Err(format!("record {} at byte {}: NUL inside the string", rec_name(r.rt), r.off));
    }
    String::from_utf8(d.to_vec()).map_err(|_| format!("record {} at byte {}: not UTF-8", rec_name(r.rt), r.off))
}
fn real_of(raw: u64, what: &str, off: usize) -> Result<u64, String> {
    // a leading zero digit is only legitimate at the smallest exponent, where it cannot be shifted away
    if !R::is_normalised(raw) && (raw >> 56) & 0x7f != 0 {
        return Err(format!("{} at byte {}: real {:#018x} is not normalised", what, off, raw));
    }
    Ok(R::decode(raw).to_bits())
}
fn dates(r: &Rec) -> [i16; 12] {
    let mut d = [0i16; 12];
    for (i, v) in d.iter_mut().enumerate() {
        *v = i16_at(r.data, i);
    }
    d
}
fn xy_of(r: &Rec) -> Result<Vec<(i32, i32)>, String> {
    if r.data.len() % 8 != 0 {
        return Err(format!("XY at byte {}: {} bytes is not a whole number of coordinate pairs", r.off, r.data.len()));
    }
    Ok((0..r.data.len() / 8).map(|i| (i32_at(r.data, 2 * i), i32_at(r.data, 2 * i + 1))).collect())
}

impl<'a> P<'a> {
    fn head(&mut self) -> Result<(Option<(u8, u8)>, Option<i32>), String> {
        let fl = self.opt(ELFLAGS, Some(2))?.map(|r| (r.data[0], r.data[1]));
        let px = self.opt(PLEX, Some(4))?.map(|r| i32_at(r.data, 0));
        Ok((fl, px))
    }
    fn tail(&mut self, head: (Option<(u8, u8)>, Option<i32>)) -> Result<MCommon, String> {
        let mut props = vec![];
        while self.at(PROPATTR) {
            let a = self.take(PROPATTR, Some(2))?;
            let v = self.take(PROPVALUE, None)?;
            props.push((i16_at(a.data, 0), string_of(&v)?));
        }
        self.take(ENDEL, Some(0))?;
        Ok(MCommon { elflags: head.0, plex: head.1, props })
    }
    fn strans(&mut self) -> Result<Option<MStrans>, String> {
        let r = match self.opt(STRANS, Some(2))? {
            None => return Ok(None),
            Some(r) => r,
        };
        let w = u16::from_be_bytes([r.data[0], r.data[1]]);
        if w & !0x8006 != 0 {
            return Err(format!("STRANS at byte {}: bits {:#06x} outside reflection (0x8000) / absolute magnification (0x0004) / absolute angle (0x0002)", r.off, w));
        }
        let mut s = MStrans { reflected: w & 0x8000 != 0, abs_mag: w & 0x0004 != 0, abs_angle: w & 0x0002 != 0, mag: None, angle: None };
        if let Some(m) = self.opt(MAG, Some(8))? {
            s.mag = Some(real_of(u64_at(m.data, 0), "MAG", m.off)?);
        }
        if let Some(a) = self.opt(ANGLE, Some(8))? {
            s.angle = Some(real_of(u64_at(a.data, 0), "ANGLE", a.off)?);
        }
        Ok(Some(s))
    }
    fn one_pt(&mut self, n: usize, what: &str) -> Result<Vec<(i32, i32)>, String> {
        let r = self.take(XY, None)?;
        let v = xy_of(&r)?;
        if v.len() != n {
            return Err(format!("{}: XY at byte {} has {} points, the element kind takes {}", what, r.off, v.len(), n));
        }
        Ok(v)
    }
    fn elem(&mut self) -> Result<MElem, String> {
        let r = self.peek()?.clone();
        if r.dt != 0 || !r.data.is_empty() {
            return Err(format!("element header {} at byte {} must carry no data", rec_name(r.rt), r.off));
        }
        self.pos += 1;
        match r.rt {
            0x08 => {
                let h = self.head()?;
                let layer = i16_at(self.take(LAYER, Some(2))?.data, 0);
                let datatype = i16_at(self.take(DATATYPE, Some(2))?.data, 0);
                let xy = xy_of(&self.take(XY, None)?)?;
                Ok(MElem::Boundary { layer, datatype, xy, c: self.tail(h)? })
            }
            0x09 => {
                let h = self.head()?;
                let layer = i16_at(self.take(LAYER, Some(2))?.data, 0);
                let datatype = i16_at(self.take(DATATYPE, Some(2))?.data, 0);
                let path_type = self.opt(PATHTYPE, Some(2))?.map(|r| i16_at(r.data, 0));
                let width = self.opt(WIDTH, Some(4))?.map(|r| i32_at(r.data, 0));
                let begin_extn = self.opt(BGNEXTN, Some(4))?.map(|r| i32_at(r.data, 0));
                let end_extn = self.opt(ENDEXTN, Some(4))?.map(|r| i32_at(r.data, 0));
                let xy = xy_of(&self.take(XY, None)?)?;
                Ok(MElem::Path { layer, datatype, xy, path_type, width, begin_extn, end_extn, c: self.tail(h)? })
            }
            0x0A => {
                let h = self.head()?;
                let name = string_of(&self.take(SNAME, None)?)?;
                let strans = self.strans()?;
                let xy = self.one_pt(1, "SREF")?[0];
                Ok(MElem::Sref { name, xy, strans, c: self.tail(h)? })
            }
            0x0B => {
                let h = self.head()?;
                let name = string_of(&self.take(SNAME, None)?)?;
                let strans = self.strans()?;
                let cr = self.take(COLROW, Some(4))?;
                let (cols, rows) = (i16_at(cr.data, 0), i16_at(cr.data, 1));
                let v = self.one_pt(3, "AREF")?;
                Ok(MElem::Aref { name, xy: [v[0], v[1], v[2]], cols, rows, strans, c: self.tail(h)? })
            }
            0x0C => {
                let h = self.head()?;
                let layer = i16_at(self.take(LAYER, Some(2))?.data, 0);
                let texttype = i16_at(self.take(TEXTTYPE, Some(2))?.data, 0);
                let presentation = self.opt(PRESENTATION, Some(2))?.map(|r| (r.data[0], r.data[1]));
                let path_type = self.opt(PATHTYPE, Some(2))?.map(|r| i16_at(r.data, 0));
                let width = self.opt(WIDTH, Some(4))?.map(|r| i32_at(r.data, 0));
                let strans = self.strans()?;
                let xy = self.one_pt(1, "TEXT")?[0];
                let string = string_of(&self.take(STRING, None)?)?;
                Ok(MElem::Text { string, layer, texttype, xy, presentation, path_type, width, strans, c: self.tail(h)? })
            }
            0x15 => {
                let h = self.head()?;
                let layer = i16_at(self.take(LAYER, Some(2))?.data, 0);
                let nodetype = i16_at(self.take(NODETYPE, Some(2))?.data, 0);
                let xy = xy_of(&self.take(XY, None)?)?;
                Ok(MElem::Node { layer, nodetype, xy, c: self.tail(h)? })
            }
            0x2D => {
                let h = self.head()?;
                let layer = i16_at(self.take(LAYER, Some(2))?.data, 0);
                let boxtype = i16_at(self.take(BOXTYPE, Some(2))?.data, 0);
                let v = self.one_pt(5, "BOX")?;
                Ok(MElem::Box { layer, boxtype, xy: [v[0], v[1], v[2], v[3], v[4]], c: self.tail(h)? })
            }
            other => Err(format!("record at byte {}: {} (0x{:02x}) cannot start an element", r.off, rec_name(other), other)),
        }
    }
}

/// Decode a stream strictly by the GDSII BNF (no library-level optional records: the writer
/// under test never emits them). Returns the model and the number of bytes consumed.
pub fn decode(b: &[u8]) -> Result<(MLib, usize), String> {
    let (recs, consumed) = split_records(b)?;
    let mut p = P { recs, pos: 0 };
    let version = i16_at(p.take(HEADER, Some(2))?.data, 0);
    let ldates = dates(&p.take(BGNLIB, Some(24))?);
    let name = string_of(&p.take(LIBNAME, None)?)?;
    let u = p.take(UNITS, Some(16))?;
    let units = (real_of(u64_at(u.data, 0), "UNITS[0]", u.off)?, real_of(u64_at(u.data, 1), "UNITS[1]", u.off)?);
    let mut structs = vec![];
    while p.at(BGNSTR) {
        let sd = dates(&p.take(BGNSTR, Some(24))?);
        let sname = string_of(&p.take(STRNAME, None)?)?;
        let mut elems = vec![];
        while !p.at(ENDSTR) {
            elems.push(p.elem()?);
        }
        p.take(ENDSTR, Some(0))?;
        structs.push(MStruct { name: sname, dates: sd, elems });
    }
    p.take(ENDLIB, Some(0))?;
    if p.pos != p.recs.len() {
        return Err("records after ENDLIB".into());
    }
    Ok((MLib { name, version, dates: ldates, units, structs }, consumed))
}

/// Raw real bit patterns as written, in stream order (UNITS ×2, then every MAG / ANGLE)
pub fn raw_reals(b: &[u8]) -> Vec<(u8, u64)> {
    let mut out = vec![];
    if let Ok((recs, _)) = split_records(b) {
        for r in recs {
            if r.dt == 5 {
                for i in 0..r.data.len() / 8 {
                    out.push((r.rt, u64_at(r.data, i)));
                }
            }
        }
    }
    out
}
