//! C09 — relative placement puts each instance exactly where its relation says.
use super::PropDef;
use crate::engine::{hash_of, CaseFn, Ctx, Run, Src};
use crate::gen::tetris::empty_stack;
use layout21raw::Dir;
use layout21tetris as tet;
use layout21utils::Ptr;
use std::collections::BTreeMap;
use tet::array::{Array, ArrayInstance, Arrayable};
use tet::bbox::HasBoundBox;
use tet::cell::Cell;
use tet::coords::{PrimPitches, UnitSpeced, Xy};
use tet::instance::Instance;
use tet::layout::Layout;
use tet::outline::Outline;
use tet::placement::*;

pub fn def() -> PropDef {
    PropDef { id: "C09", level: "exploration", run, case, render }
}

type P = (i64, i64);
#[derive(Clone, Copy, Debug, PartialEq, Eq, Hash)]
enum MSide {
    Top,
    Bottom,
    Left,
    Right,
}
impl MSide {
    fn to(self) -> Side {
        match self {
            MSide::Top => Side::Top,
            MSide::Bottom => Side::Bottom,
            MSide::Left => Side::Left,
            MSide::Right => Side::Right,
        }
    }
    fn horizontal(self) -> bool {
        matches!(self, MSide::Left | MSide::Right)
    }
}
#[derive(Clone, Debug, PartialEq, Eq, Hash)]
enum MSep {
    None,
    Pitches(i64),
    SizeOf(usize), // index of a cell
}
#[derive(Clone, Debug, PartialEq, Eq, Hash)]
struct MRel {
    to: usize, // index of another instance
    side: MSide,
    align: MSide,
    sep: MSep,
}
#[derive(Clone, Debug, PartialEq, Eq, Hash)]
struct MInst {
    cell: usize,
    rh: bool,
    rv: bool,
    abs: P,
    rel: Option<MRel>,
}
#[derive(Clone, Debug, PartialEq, Eq, Hash)]
struct Program {
    cells: Vec<P>, // sizes
    insts: Vec<MInst>,
    listing: Vec<usize>,
}
#[derive(Clone, Copy, Debug, PartialEq, Eq)]
struct BB {
    x0: i64,
    y0: i64,
    x1: i64,
    y1: i64,
}
fn bbox_of(loc: P, size: P, rh: bool, rv: bool) -> BB {
    let (x0, x1) = if rh { (loc.0 - size.0, loc.0) } else { (loc.0, loc.0 + size.0) };
    let (y0, y1) = if rv { (loc.1 - size.1, loc.1) } else { (loc.1, loc.1 + size.1) };
    BB { x0, y0, x1, y1 }
}
/// The reference model: where must instance `i` go?
fn model_place(p: &Program) -> Option<Vec<P>> {
    let n = p.insts.len();
    let mut loc: Vec<Option<P>> = vec![None; n];
    // iterate to a fixed point (programs are acyclic here)
    for _ in 0..=n {
        for i in 0..n {
            if loc[i].is_some() {
                continue;
            }
            let inst = &p.insts[i];
            match &inst.rel {
                None => loc[i] = Some(inst.abs),
                Some(r) => {
                    if let Some(rl) = loc[r.to] {
                        let t = &p.insts[r.to];
                        let b = bbox_of(rl, p.cells[t.cell], t.rh, t.rv);
                        let size = p.cells[inst.cell];
                        let sep = match &r.sep {
                            MSep::None => 0,
                            MSep::Pitches(k) => *k,
                            MSep::SizeOf(c) => {
                                if r.side.horizontal() {
                                    p.cells[*c].0
                                } else {
                                    p.cells[*c].1
                                }
                            }
                        };
                        // the instance's own bounding box
                        let (mut x0, mut y0) = (0, 0);
                        match r.side {
                            MSide::Right => x0 = b.x1 + sep,
                            MSide::Left => x0 = b.x0 - sep - size.0,
                            MSide::Top => y0 = b.y1 + sep,
                            MSide::Bottom => y0 = b.y0 - sep - size.1,
                        }
                        match r.align {
                            MSide::Bottom => y0 = b.y0,
                            MSide::Top => y0 = b.y1 - size.1,
                            MSide::Left => x0 = b.x0,
                            MSide::Right => x0 = b.x1 - size.0,
                        }
                        let lx = if inst.rh { x0 + size.0 } else { x0 };
                        let ly = if inst.rv { y0 + size.1 } else { y0 };
                        loc[i] = Some((lx, ly));
                    }
                }
            }
        }
    }
    loc.into_iter().collect()
}
/// Outline of a cell of bounding size `s`: a rectangle, or (for a third of the sizes) a two-step
/// "tetris" outline with the same bounding box: full width up to half the height, half the width above.
fn outline_of(s: P) -> Outline {
    if s.0 >= 2 && s.1 >= 2 && (s.0 + s.1) % 3 == 0 {
        Outline::new(&[s.0 as isize, (s.0 / 2) as isize], &[(s.1 / 2) as isize, s.1 as isize]).unwrap()
    } else {
        Outline::rect(s.0 as isize, s.1 as isize).unwrap()
    }
}
/// How the cell holding the program sits in the library (derived from the program, so that replay
/// files stay valid): 0 = listed on its own; 1 = also instantiated by a cell `outer` listed before it;
/// 2 = reachable only through `outer` (not itself in the library's cell list).
fn wrap_mode(p: &Program) -> usize {
    (p.insts.len() + 2 * p.cells.len() + p.listing.first().copied().unwrap_or(0)) % 3
}
/// The twin of the program cell: same instance names, same relations, every absolute root moved by
/// this much. Placing it in the same library shows state leaking from one cell's placement to the next.
const TWIN_SHIFT: P = (1000, 2000);
fn program_layout(p: &Program, name: &str, cells: &[Ptr<Cell>], shift: P) -> Layout {
    let insts: Vec<Ptr<Instance>> = p
        .insts
        .iter()
        .enumerate()
        .map(|(i, m)| Ptr::new(Instance { inst_name: format!("i{}", i), cell: cells[m.cell].clone(), loc: ((m.abs.0 + shift.0) as isize, (m.abs.1 + shift.1) as isize).into(), reflect_horiz: m.rh, reflect_vert: m.rv }))
        .collect();
    for (i, m) in p.insts.iter().enumerate() {
        if let Some(r) = &m.rel {
            let axis = if r.side.horizontal() { Dir::Horiz } else { Dir::Vert };
            let sepby = match &r.sep {
                MSep::None => None,
                MSep::Pitches(k) => Some(SepBy::UnitSpeced(UnitSpeced::PrimPitches(PrimPitches::new(axis, *k as isize)))),
                MSep::SizeOf(c) => Some(SepBy::SizeOf(cells[*c].clone())),
            };
            let sep = match (sepby, axis) {
                (None, _) => Separation::default(),
                (Some(s), Dir::Horiz) => Separation::x(s),
                (Some(s), Dir::Vert) => Separation::y(s),
            };
            insts[i].write().unwrap().loc = Place::Rel(RelativePlace { to: Placeable::Instance(insts[r.to].clone()), side: r.side.to(), align: Align::Side(r.align.to()), sep });
        }
    }
    let mut top = Layout::new(name, 0, Outline::rect(100_000, 100_000).unwrap());
    let referenced: Vec<bool> = (0..p.insts.len()).map(|i| p.insts.iter().any(|m| m.rel.as_ref().map(|r| r.to == i).unwrap_or(false))).collect();
    for (k, &i) in p.listing.iter().enumerate() {
        // an absolutely placed instance that others are placed against need not be listed at all: it is
        // reached through the relation and belongs to the placed cell all the same (one such root in five)
        if p.insts[i].rel.is_none() && referenced[i] && (k + 2 * p.insts.len()) % 5 == 4 {
            continue;
        }
        // every fourth instance is handed over through the layout's list of placeable objects
        if (k + p.insts.len()) % 4 == 3 {
            top.places.push(Placeable::Instance(insts[i].clone()));
        } else {
            top.instances.push(insts[i].clone());
        }
    }
    top
}
fn build(p: &Program) -> (tet::library::Library, Ptr<Cell>, Ptr<Cell>) {
    let mut lib = tet::library::Library::new("plib");
    // unit cells are listed in the library, or (for one program in four, by content) live outside its list:
    // they are placed all the same through the instances that name them
    let unlisted_units = (p.insts.len() + p.cells.len()) % 4 == 3;
    let cells: Vec<Ptr<Cell>> = p
        .cells
        .iter()
        .enumerate()
        .map(|(i, s)| {
            let c = Cell::from(Layout::new(format!("c{}", i), 0, outline_of(*s)));
            if unlisted_units && i % 2 == 0 {
                Ptr::new(c)
            } else {
                lib.cells.add(c)
            }
        })
        .collect();
    let top = program_layout(p, "top", &cells, (0, 0));
    // a cell may carry an abstract view beside its layout; its layout is placed all the same
    let with_abs = |l: Layout| -> Cell {
        let mut c = Cell::from(l);
        if p.insts.len() % 2 == 1 {
            c.abs = Some(tet::abs::Abstract::new(c.name.clone(), 0, Outline::rect(100_000, 100_000).unwrap()));
        }
        c
    };
    let top = match wrap_mode(p) {
        0 => lib.cells.add(with_abs(top)),
        mode => {
            let top = Ptr::new(with_abs(top));
            let mut outer = Layout::new("outer", 0, Outline::rect(200_000, 200_000).unwrap());
            outer.instances.push(Ptr::new(Instance { inst_name: "the_top".into(), cell: top.clone(), loc: (3isize, 5isize).into(), reflect_horiz: false, reflect_vert: false }));
            lib.cells.add(Cell::from(outer));
            if mode == 1 {
                lib.cells.push(top.clone());
            }
            top
        }
    };
    let twin = lib.cells.add(with_abs(program_layout(p, "twin", &cells, TWIN_SHIFT)));
    (lib, top, twin)
}
/// Place and read back (name -> (loc, boundbox))
fn place(p: &Program) -> Result<BTreeMap<String, (P, BB)>, String> {
    let (lib, top, twin) = build(p);
    let (_lib, _) = tet::placer::Placer::place(lib, empty_stack()).map_err(|e| format!("{:?}", e))?;
    let a = read_back(&top, (0, 0))?;
    let b = read_back(&twin, TWIN_SHIFT)?;
    if a != b {
        return Err(format!("two cells holding the same program (the second with every absolute location moved by {:?}) were placed differently: {:?} vs, moved back, {:?}", TWIN_SHIFT, a, b));
    }
    Ok(a)
}
fn read_back(cell: &Ptr<Cell>, shift: P) -> Result<BTreeMap<String, (P, BB)>, String> {
    let top = cell.read().unwrap();
    let lay = top.layout.as_ref().unwrap();
    if !lay.places.is_empty() {
        return Err(format!("{} placeable objects left unplaced in cell {}", lay.places.len(), top.name));
    }
    let mut out = BTreeMap::new();
    for ip in lay.instances.iter() {
        let inst = ip.read().unwrap();
        let loc = match &inst.loc {
            Place::Abs(xy) => (xy.x.num as i64 - shift.0, xy.y.num as i64 - shift.1),
            Place::Rel(_) => return Err(format!("instance {} still has a relative location after placement", inst.inst_name)),
        };
        let bb = inst.boundbox().map_err(|e| format!("{:?}", e))?;
        let bb = BB { x0: bb.p0.x.num as i64 - shift.0, y0: bb.p0.y.num as i64 - shift.1, x1: bb.p1.x.num as i64 - shift.0, y1: bb.p1.y.num as i64 - shift.1 };
        if out.insert(inst.inst_name.clone(), (loc, bb)).is_some() {
            return Err(format!("instance {} appears twice after placement", inst.inst_name));
        }
    }
    Ok(out)
}
fn check_program(p: &Program, ctx: &mut Ctx) -> Result<(), String> {
    let want = model_place(p).ok_or("harness: program not acyclic")?;
    let got = place(p).map_err(|e| format!("placement of a valid program failed: {}\nprogram {:?}", e, p))?;
    if got.len() != p.insts.len() {
        return Err(format!("{} instances listed, {} present after placement", p.insts.len(), got.len()));
    }
    for (i, m) in p.insts.iter().enumerate() {
        let (loc, bb) = got.get(&format!("i{}", i)).ok_or_else(|| format!("instance i{} missing after placement", i))?;
        let wbb = bbox_of(want[i], p.cells[m.cell], m.rh, m.rv);
        if *loc != want[i] || *bb != wbb {
            let why = match &m.rel {
                Some(r) => format!("placed {:?} of i{} aligned {:?}, separation {:?}", r.side, r.to, r.align, r.sep),
                None => "absolute".to_string(),
            };
            return Err(format!("instance i{} ({}; size {:?}, reflect_horiz {}, reflect_vert {}): location {:?} bounding box {:?}; the relation requires location {:?} bounding box {:?}\nprogram {:?}", i, why, p.cells[m.cell], m.rh, m.rv, loc, bb, want[i], wbb, p));
        }
    }
    // a second listing order must give the same answer
    let mut q = p.clone();
    q.listing.reverse();
    let got2 = place(&q).map_err(|e| format!("placement failed for the reversed listing order: {}", e))?;
    if got2 != got {
        return Err(format!("placement depends on the listing order: {:?} vs {:?}", got, got2));
    }
    let _ = ctx;
    Ok(())
}

// ---- the single-relation table: 4 sides x 2 orthogonal alignments x 4 x 4 reflections x 3 separations ----------
fn table_total() -> u64 {
    4 * 2 * 4 * 4 * 3
}
fn table_program(mut i: u64) -> Program {
    let side = [MSide::Top, MSide::Bottom, MSide::Left, MSide::Right][(i % 4) as usize];
    i /= 4;
    let a = i % 2;
    i /= 2;
    let align = if side.horizontal() { [MSide::Bottom, MSide::Top][a as usize] } else { [MSide::Left, MSide::Right][a as usize] };
    let (rh, rv) = (i % 2 == 1, (i / 2) % 2 == 1);
    i /= 4;
    let (trh, trv) = (i % 2 == 1, (i / 2) % 2 == 1);
    i /= 4;
    let sep = [MSep::None, MSep::Pitches(4), MSep::SizeOf(2)][(i % 3) as usize].clone();
    Program {
        cells: vec![(7, 3), (2, 5), (11, 13)],
        insts: vec![MInst { cell: 0, rh: trh, rv: trv, abs: (100, 200), rel: None }, MInst { cell: 1, rh, rv, abs: (0, 0), rel: Some(MRel { to: 0, side, align, sep }) }],
        listing: vec![1, 0],
    }
}
fn table_case(src: &mut Src, ctx: &mut Ctx) -> Result<(), String> {
    let p = table_program(src.u64());
    ctx.nontrivial(hash_of(&p));
    if p.insts[1].rh || p.insts[1].rv {
        ctx.label("single relation with a reflected instance");
    }
    check_program(&p, ctx)
}

// ---- random programs: chains and trees ----------------------------------------------------------------------
/// One long chain: 70-130 instances, each placed against the one before (few choices, so that it fits
/// a short choice sequence). Placed in listing order and, by check_program, in reverse order, where the
/// orderer has to descend the whole chain in one go.
fn gen_long_chain(src: &mut Src) -> Program {
    let cells: Vec<P> = vec![(src.i64_in(1, 9), src.i64_in(1, 9)), (2, 3)];
    let n = src.usize_in(70, 130);
    let side = *src.pick(&[MSide::Right, MSide::Top, MSide::Left, MSide::Bottom]);
    let align = if side.horizontal() { MSide::Bottom } else { MSide::Left };
    let mut insts = vec![MInst { cell: 0, rh: false, rv: false, abs: (src.signed(500), src.signed(500)), rel: None }];
    for i in 1..n {
        insts.push(MInst { cell: i % 2, rh: i % 3 == 0, rv: i % 5 == 0, abs: (0, 0), rel: Some(MRel { to: i - 1, side, align, sep: if i % 4 == 0 { MSep::Pitches(1) } else { MSep::None } }) });
    }
    Program { cells, insts, listing: (0..n).collect() }
}
fn gen_program(src: &mut Src) -> Program {
    if src.prob(1, 25) {
        return gen_long_chain(src);
    }
    let nc = src.usize_in(1, 5);
    let cells: Vec<P> = (0..nc).map(|_| (src.i64_in(1, 30), src.i64_in(1, 30))).collect();
    let n = src.usize_in(1, 25);
    let nroots = src.usize_in(1, 3.min(n));
    let mut insts = vec![];
    for i in 0..n {
        let rel = if i < nroots {
            None
        } else {
            let to = if src.bool() { i - 1 } else { src.index(i) };
            let side = *src.pick(&[MSide::Top, MSide::Bottom, MSide::Left, MSide::Right]);
            let align = if side.horizontal() { *src.pick(&[MSide::Bottom, MSide::Top]) } else { *src.pick(&[MSide::Left, MSide::Right]) };
            let sep = match src.below(3) {
                0 => MSep::None,
                1 => MSep::Pitches(src.i64_in(-6, 20)), // negative: the boxes overlap by that much
                _ => MSep::SizeOf(src.index(nc)),
            };
            Some(MRel { to, side, align, sep })
        };
        insts.push(MInst { cell: src.index(nc), rh: src.bool(), rv: src.bool(), abs: (src.signed(500), src.signed(500)), rel });
    }
    // relabel so that dependency order is hidden, then shuffle the listing
    let mut perm: Vec<usize> = (0..n).collect();
    src.shuffle(&mut perm);
    let mut out = vec![None; n];
    for (i, m) in insts.into_iter().enumerate() {
        let mut m = m;
        if let Some(r) = m.rel.as_mut() {
            r.to = perm[r.to];
        }
        out[perm[i]] = Some(m);
    }
    let mut listing: Vec<usize> = (0..n).collect();
    src.shuffle(&mut listing);
    Program { cells, insts: out.into_iter().map(|m| m.unwrap()).collect(), listing }
}
fn depth(p: &Program, i: usize) -> usize {
    match &p.insts[i].rel {
        None => 0,
        Some(r) => 1 + depth(p, r.to),
    }
}
fn program_case(src: &mut Src, ctx: &mut Ctx) -> Result<(), String> {
    let p = gen_program(src);
    let maxd = (0..p.insts.len()).map(|i| depth(&p, i)).max().unwrap_or(0);
    let reflected = p.insts.iter().any(|m| m.rel.is_some() && (m.rh || m.rv));
    let out_of_order = p.listing.iter().enumerate().any(|(k, i)| p.insts[*i].rel.as_ref().map(|r| p.listing.iter().position(|x| *x == r.to).unwrap() > k).unwrap_or(false));
    if maxd >= 2 && reflected && out_of_order {
        ctx.nontrivial(hash_of(&p));
    }
    ctx.label(&format!("chain depth {}", maxd.min(6)));
    ctx.label(["program cell listed", "program cell listed after the cell that instantiates it", "program cell reachable only through an instance"][wrap_mode(&p)]);
    if p.insts.iter().any(|m| { let s = p.cells[m.cell]; s.0 >= 2 && s.1 >= 2 && (s.0 + s.1) % 3 == 0 }) {
        ctx.label("instance of a cell with a two-step outline");
    }
    for m in &p.insts {
        if let Some(r) = &m.rel {
            ctx.label(&format!("separation {}", match r.sep { MSep::None => "none", MSep::Pitches(_) => "in pitches", MSep::SizeOf(_) => "size of a cell" }));
            break;
        }
    }
    ctx.sample("placement program", || format!("{:?}", p));
    check_program(&p, ctx)
}

// ---- cyclic programs ------------------------------------------------------------------------------------------
/// A cell that contains itself - directly, or through one of the unit cells it instantiates - has no
/// finite layout: placing the library must report it, whether the offending instance is absolute or
/// placed relative to a sibling.
fn self_containing_case(src: &mut Src, ctx: &mut Ctx) -> Result<(), String> {
    let p = gen_program(src);
    let (lib, top, _twin) = build(&p);
    let through_unit = src.prob(1, 3);
    let relative = src.prob(1, 3);
    let listed_as_placeable = src.prob(1, 4);
    // or as the unit of an array nested 1-4 deep among the objects awaiting placement
    let array_depth = if src.prob(1, 4) { src.usize_in(1, 4) } else { 0 };
    // the cell that receives the instance of `top`
    let host: Ptr<Cell> = if through_unit {
        let t = top.read().unwrap();
        let lay = t.layout.as_ref().unwrap();
        let all: Vec<Ptr<Instance>> = lay.instances.iter().cloned().chain(lay.places.iter().filter_map(|pl| if let Placeable::Instance(i) = pl { Some(i.clone()) } else { None })).collect();
        let k = src.index(all.len());
        let c = all[k].read().unwrap().cell.clone();
        c
    } else {
        top.clone()
    };
    {
        let mut h = host.write().unwrap();
        let lay = h.layout.as_mut().unwrap();
        let sibling = lay.instances.iter().next().cloned();
        let loc = match (relative, sibling) {
            (true, Some(sib)) => Place::Rel(RelativePlace { to: Placeable::Instance(sib), side: tet::placement::Side::Top, align: Align::Side(tet::placement::Side::Right), sep: Separation::default() }),
            _ => (7isize, 11isize).into(),
        };
        let inst = Ptr::new(Instance { inst_name: "myself".into(), cell: top.clone(), loc, reflect_horiz: false, reflect_vert: false });
        if array_depth > 0 {
            let mut arr = Ptr::new(Array { name: "a0".into(), unit: Arrayable::Instance(top.clone()), count: 2, sep: Separation::x(SepBy::UnitSpeced(UnitSpeced::PrimPitches(PrimPitches::x(3)))) });
            for d in 1..array_depth {
                arr = Ptr::new(Array { name: format!("a{}", d), unit: Arrayable::Array(arr), count: 1 + d % 2, sep: Separation::y(SepBy::UnitSpeced(UnitSpeced::PrimPitches(PrimPitches::y(5)))) });
            }
            lay.places.push(Placeable::Array(Ptr::new(ArrayInstance { name: "myselves".into(), array: arr, loc: Place::Abs(Xy::from((1isize, 2isize))), reflect_vert: false, reflect_horiz: false })));
        } else if listed_as_placeable {
            lay.places.push(Placeable::Instance(inst));
        } else {
            lay.instances.push(inst);
        }
    }
    ctx.label(if through_unit { "cell containing itself through a unit cell" } else { "cell containing itself directly" });
    ctx.nontrivial(hash_of(&(&p, through_unit, relative, listed_as_placeable, array_depth)));
    if array_depth >= 3 {
        ctx.label("cell containing itself through an array nested three or more deep");
    }
    match tet::placer::Placer::place(lib, empty_stack()) {
        Err(_) => Ok(()),
        Ok(_) => Err(format!("a cell that contains an instance of itself ({}, {} instance{}) was placed without an error; program {:?}", if through_unit { "through a unit cell" } else { "directly" }, if relative { "relative" } else { "absolute" }, if array_depth > 0 { format!(" as the unit of an array nested {} deep", array_depth) } else if listed_as_placeable { " listed as placeable".to_string() } else { String::new() }, p)),
    }
}
/// Instance names are labels, not identities: programs whose instances are all unnamed, all share one name, or
/// take the name of the instance they are placed against must be placed exactly like the same program with
/// distinct names.
fn same_names_case(src: &mut Src, ctx: &mut Ctx) -> Result<(), String> {
    let p = gen_program(src);
    let want = model_place(&p).ok_or("harness: program not acyclic")?;
    let (lib, top, _twin) = build(&p);
    let mode = src.below(3);
    // the handles of the program's instances, by index (an unlisted root is reached through a relation only)
    let mut handles: Vec<Option<Ptr<Instance>>> = vec![None; p.insts.len()];
    {
        let t = top.read().unwrap();
        let lay = t.layout.as_ref().unwrap();
        let all: Vec<Ptr<Instance>> = lay.instances.iter().cloned().chain(lay.places.iter().filter_map(|pl| if let Placeable::Instance(i) = pl { Some(i.clone()) } else { None })).collect();
        for h in all {
            let idx: Option<usize> = h.read().unwrap().inst_name[1..].parse().ok();
            if let Some(i) = idx {
                handles[i] = Some(h);
            }
        }
    }
    for (i, h) in handles.iter().enumerate() {
        if let Some(h) = h {
            let name = match mode {
                0 => String::new(),
                1 => "dup".to_string(),
                // the name of the root of the instance's chain
                _ => {
                    let mut r = i;
                    while let Some(rel) = &p.insts[r].rel {
                        r = rel.to;
                    }
                    format!("i{}", r)
                }
            };
            h.write().unwrap().inst_name = name;
        }
    }
    ctx.label(["all instances unnamed", "all instances share one name", "instances named after the root of their chain"][mode as usize]);
    if p.insts.iter().any(|m| m.rel.is_some()) {
        ctx.nontrivial(hash_of(&(&p, mode)));
    }
    tet::placer::Placer::place(lib, empty_stack()).map_err(|e| format!("placement failed for a program whose instances {}: {:?}; program {:?}", ["are all unnamed", "share one name", "are named after the root of their chain"][mode as usize], e, p))?;
    for (i, h) in handles.iter().enumerate() {
        if let Some(h) = h {
            let inst = h.read().unwrap();
            let got = match &inst.loc {
                Place::Abs(xy) => (xy.x.num as i64, xy.y.num as i64),
                Place::Rel(_) => return Err(format!("instance {} still has a relative location after placement (names mode {})", i, mode)),
            };
            if got != want[i] {
                return Err(format!("instance {} (named {:?}) placed at {:?}, the relation model gives {:?}; program {:?}", i, inst.inst_name, got, want[i], p));
            }
        }
    }
    Ok(())
}
/// Separations at the top of the integer range: the placed instance lands far away, at a location that is
/// still representable, and nothing on the way there may overflow. Decided in 128-bit arithmetic.
fn extreme_sep_case(src: &mut Src, ctx: &mut Ctx) -> Result<(), String> {
    let size_ref = (src.i64_in(1, 9), src.i64_in(1, 9));
    let size = (src.i64_in(1, 40), src.i64_in(1, 40));
    let root = (src.i64_in(0, 500), src.i64_in(0, 500));
    let side = *src.pick(&[MSide::Left, MSide::Bottom, MSide::Right, MSide::Top]);
    let (rh, rv) = (src.bool(), src.bool());
    let horizontal = side.horizontal();
    let own = if horizontal { size.0 } else { size.1 } as i128;
    // the largest separation for which the instance's location and bounding box stay representable, minus 0..3
    let max = i64::MAX as i128;
    let min = i64::MIN as i128;
    let slack = src.i64_in(0, 3) as i128;
    let (ref_lo, ref_hi) = if horizontal { (root.0 as i128, (root.0 + size_ref.0) as i128) } else { (root.1 as i128, (root.1 + size_ref.1) as i128) };
    let sep: i128 = match side {
        MSide::Left | MSide::Bottom => (ref_lo - own - min - slack).min(max),
        _ => (max - own - ref_hi - slack).min(max),
    };
    let lo: i128 = match side {
        MSide::Left | MSide::Bottom => ref_lo - sep - own,
        _ => ref_hi + sep,
    };
    let reflected_along = if horizontal { rh } else { rv };
    let want_along: i128 = if reflected_along { lo + own } else { lo };
    if want_along < min || want_along > max || lo < min || lo + own > max {
        ctx.excluded("location not representable");
        return Ok(());
    }
    let mut lib = tet::library::Library::new("plib");
    let cref = lib.cells.add(Cell::from(Layout::new("cref", 0, Outline::rect(size_ref.0 as isize, size_ref.1 as isize).unwrap())));
    let cown = lib.cells.add(Cell::from(Layout::new("cown", 0, Outline::rect(size.0 as isize, size.1 as isize).unwrap())));
    let mut top = Layout::new("top", 0, Outline::rect(100, 100).unwrap());
    let a = top.instances.add(Instance { inst_name: "a".into(), cell: cref, loc: (root.0 as isize, root.1 as isize).into(), reflect_horiz: false, reflect_vert: false });
    let axis = if horizontal { Dir::Horiz } else { Dir::Vert };
    let sepby = SepBy::UnitSpeced(UnitSpeced::PrimPitches(PrimPitches::new(axis, sep as isize)));
    let align = if horizontal { MSide::Bottom } else { MSide::Left };
    let b = top.instances.add(Instance {
        inst_name: "b".into(),
        cell: cown,
        loc: Place::Rel(RelativePlace { to: Placeable::Instance(a), side: side.to(), align: Align::Side(align.to()), sep: if horizontal { Separation::x(sepby) } else { Separation::y(sepby) } }),
        reflect_horiz: rh,
        reflect_vert: rv,
    });
    lib.cells.add(Cell::from(top));
    ctx.label("separation at the top of the integer range");
    ctx.nontrivial(hash_of(&(size_ref, size, root, format!("{:?}", side), rh, rv, slack as i64)));
    tet::placer::Placer::place(lib, empty_stack()).map_err(|e| format!("placement with a separation of {} primitive pitches ({:?} of an instance at {:?}) failed although the location {} is representable: {:?}", sep, side, root, want_along, e))?;
    let inst = b.read().unwrap();
    let got = match &inst.loc {
        Place::Abs(xy) => if horizontal { xy.x.num as i128 } else { xy.y.num as i128 },
        Place::Rel(_) => return Err("instance still has a relative location after placement".into()),
    };
    if got != want_along {
        return Err(format!("instance placed {:?} of an instance at {:?} (size {:?}) with separation {}: coordinate {} expected {}", side, root, size_ref, sep, got, want_along));
    }
    Ok(())
}
/// fixed ab62e2a: a cell whose list of objects awaiting placement holds an instance of the cell itself, placed
/// relative to a sibling, was not seen by the cyclic-instantiation check; the placer then waited forever for
/// the cell's own lock. An error is required.
fn literal_case(_src: &mut Src, ctx: &mut Ctx) -> Result<(), String> {
    let mut lib = tet::library::Library::new("plib");
    let unit = lib.cells.add(Cell::from(Layout::new("c0", 0, Outline::rect(3, 4).unwrap())));
    let mut top = Layout::new("top", 0, Outline::rect(100, 100).unwrap());
    let sib = Ptr::new(Instance { inst_name: "i0".into(), cell: unit.clone(), loc: (0isize, 0isize).into(), reflect_horiz: false, reflect_vert: false });
    top.instances.push(sib.clone());
    let top = lib.cells.add(Cell::from(top));
    let me = Ptr::new(Instance {
        inst_name: "myself".into(),
        cell: top.clone(),
        loc: Place::Rel(RelativePlace { to: Placeable::Instance(sib), side: tet::placement::Side::Top, align: Align::Side(tet::placement::Side::Right), sep: Separation::default() }),
        reflect_horiz: false,
        reflect_vert: false,
    });
    top.write().unwrap().layout.as_mut().unwrap().places.push(Placeable::Instance(me));
    ctx.label("literal: cell awaiting placement of an instance of itself");
    ctx.nontrivial(hash_of(&"self-placeable"));
    match tet::placer::Placer::place(lib, empty_stack()) {
        Err(_) => Ok(()),
        Ok(_) => Err("a cell holding a relatively placed instance of itself among its objects awaiting placement was placed without an error".into()),
    }
}
fn cyclic_case(src: &mut Src, ctx: &mut Ctx) -> Result<(), String> {
    if src.prob(1, 5) {
        return self_containing_case(src, ctx);
    }
    let mut p = gen_program(src);
    // splice a cycle of length 1..5: pick k instances and chain them in a ring
    let n = p.insts.len();
    let k = src.usize_in(1, 5.min(n));
    let mut idx: Vec<usize> = (0..n).collect();
    src.shuffle(&mut idx);
    let ring = &idx[..k];
    for j in 0..k {
        let (a, b) = (ring[j], ring[(j + 1) % k]);
        p.insts[a].rel = Some(MRel { to: b, side: MSide::Right, align: MSide::Bottom, sep: MSep::None });
    }
    ctx.label(&format!("cycle of length {}", k));
    ctx.nontrivial(hash_of(&p));
    ctx.sample("cyclic placement program", || format!("{:?}", p));
    match place(&p) {
        Err(_) => Ok(()),
        Ok(locs) => Err(format!("placement relations form a cycle {:?} but placement succeeded with {:?}", ring, locs)),
    }
}

// ---- arrays -------------------------------------------------------------------------------------------------------
#[derive(Clone, Debug, Hash)]
enum MUnit {
    Cell(usize),
    Array(Box<MArray>),
}
#[derive(Clone, Debug, Hash)]
struct MArray {
    unit: MUnit,
    count: usize,
    sep: P,
}
#[derive(Clone, Debug, Hash)]
struct MArrayInst {
    array: MArray,
    loc: P,
    rh: bool,
    rv: bool,
}
fn gen_array(src: &mut Src, depth: usize, ncells: usize) -> MArray {
    let unit = if depth > 0 && src.prob(1, 3) { MUnit::Array(Box::new(gen_array(src, depth - 1, ncells))) } else { MUnit::Cell(src.index(ncells)) };
    let sep = match src.below(3) {
        0 => (src.i64_in(1, 40), 0),
        1 => (0, src.i64_in(1, 40)),
        _ => (src.signed(40), src.signed(40)),
    };
    MArray { unit, count: if src.prob(1, 10) { 0 } else { src.usize_in(1, 6) }, sep }
}
/// reference expansion: (name, cell, loc, rh, rv) with all-zero origin and no reflection
fn expand(a: &MArray, prefix: &str) -> Vec<(String, usize, P, bool, bool)> {
    let mut out = vec![];
    for i in 0..a.count {
        let at = (a.sep.0 * i as i64, a.sep.1 * i as i64);
        let name = format!("{}[{}]", prefix, i);
        match &a.unit {
            MUnit::Cell(c) => out.push((name, *c, at, false, false)),
            MUnit::Array(inner) => {
                for (n, c, l, rh, rv) in expand(inner, &name) {
                    out.push((n, c, (l.0 + at.0, l.1 + at.1), rh, rv));
                }
            }
        }
    }
    out
}
fn expand_inst(ai: &MArrayInst, name: &str) -> Vec<(String, usize, P, bool, bool)> {
    expand(&ai.array, name)
        .into_iter()
        .map(|(n, c, l, rh, rv)| {
            let x = if ai.rh { -l.0 } else { l.0 };
            let y = if ai.rv { -l.1 } else { l.1 };
            (n, c, (x + ai.loc.0, y + ai.loc.1), rh ^ ai.rh, rv ^ ai.rv)
        })
        .collect()
}
fn build_array(a: &MArray, name: &str, cells: &[Ptr<Cell>]) -> Ptr<Array> {
    let unit = match &a.unit {
        MUnit::Cell(c) => Arrayable::Instance(cells[*c].clone()),
        MUnit::Array(inner) => Arrayable::Array(build_array(inner, &format!("{}_in", name), cells)),
    };
    let sx = if a.sep.0 != 0 { Some(SepBy::UnitSpeced(UnitSpeced::PrimPitches(PrimPitches::x(a.sep.0 as isize)))) } else { None };
    let sy = if a.sep.1 != 0 { Some(SepBy::UnitSpeced(UnitSpeced::PrimPitches(PrimPitches::y(a.sep.1 as isize)))) } else { None };
    Ptr::new(Array { name: name.to_string(), unit, count: a.count, sep: Separation::new(sx, sy, None) })
}
fn array_case(src: &mut Src, ctx: &mut Ctx) -> Result<(), String> {
    let nc = src.usize_in(1, 3);
    let sizes: Vec<P> = (0..nc).map(|_| (src.i64_in(1, 20), src.i64_in(1, 20))).collect();
    let na = src.usize_in(1, 3);
    // (one array instance in six sits exactly on the parent's origin, or on one of its axes)
    let arrs: Vec<MArrayInst> = (0..na)
        .map(|_| MArrayInst {
            array: gen_array(src, 2, nc),
            loc: match src.below(12) {
                0 => (0, 0),
                1 => (0, src.signed(300)),
                _ => (src.signed(300), src.signed(300)),
            },
            rh: src.bool(),
            rv: src.bool(),
        })
        .collect();
    let mut lib = tet::library::Library::new("alib");
    // one case in three: the unit cells are not listed in the library (they are reached through the arrays
    // only, at whatever nesting depth) and hold a relatively placed pair of their own
    let inner_pairs = src.prob(1, 3);
    let leaf = lib.cells.add(Cell::from(Layout::new("leaf", 0, Outline::rect(2, 3).unwrap())));
    let cells: Vec<Ptr<Cell>> = sizes
        .iter()
        .enumerate()
        .map(|(i, s)| {
            let mut lay = Layout::new(format!("c{}", i), 0, outline_of(*s));
            if inner_pairs {
                let a = lay.instances.add(Instance { inst_name: "a".into(), cell: leaf.clone(), loc: (1isize, 1isize).into(), reflect_horiz: false, reflect_vert: false });
                lay.instances.add(Instance { inst_name: "b".into(), cell: leaf.clone(), loc: Place::Rel(RelativePlace { to: Placeable::Instance(a), side: tet::placement::Side::Right, align: Align::Side(tet::placement::Side::Bottom), sep: Separation::default() }), reflect_horiz: false, reflect_vert: false });
                Ptr::new(Cell::from(lay))
            } else {
                lib.cells.add(Cell::from(lay))
            }
        })
        .collect();
    let mut top = Layout::new("top", 0, Outline::rect(100_000, 100_000).unwrap());
    let mut want = vec![];
    for (k, ai) in arrs.iter().enumerate() {
        let name = format!("arr{}", k);
        let arr = build_array(&ai.array, &name, &cells);
        top.places.push(Placeable::Array(Ptr::new(ArrayInstance { name: name.clone(), array: arr, loc: Place::Abs(Xy::from((ai.loc.0 as isize, ai.loc.1 as isize))), reflect_vert: ai.rv, reflect_horiz: ai.rh })));
        want.extend(expand_inst(ai, &name));
    }
    // an ordinary instance beside the arrays, in half of the cases
    if src.bool() {
        let loc = (src.signed(300), src.signed(300));
        top.instances.add(Instance { inst_name: "plain".into(), cell: cells[0].clone(), loc: (loc.0 as isize, loc.1 as isize).into(), reflect_horiz: false, reflect_vert: true });
        want.push(("plain".to_string(), 0, loc, false, true));
    }
    lib.cells.add(Cell::from(top));
    let nested = arrs.iter().any(|a| matches!(a.array.unit, MUnit::Array(_)));
    let refl = arrs.iter().any(|a| a.rh || a.rv);
    if nested && refl {
        ctx.nontrivial(hash_of(&arrs));
    }
    if arrs.iter().any(|a| a.rh && a.rv) {
        ctx.label("array reflected in both axes");
    }
    ctx.sample("array instances", || format!("cell sizes {:?} arrays {:?}", sizes, arrs));
    let (lib, _) = tet::placer::Placer::place(lib, empty_stack()).map_err(|e| format!("placement of arrays failed: {:?}", e))?;
    if inner_pairs {
        ctx.label("unlisted unit cells with a relative pair inside");
        let mut used = vec![false; nc];
        fn mark(a: &MArray, used: &mut Vec<bool>) {
            match &a.unit {
                MUnit::Cell(c) => used[*c] = true,
                MUnit::Array(inner) => mark(inner, used),
            }
        }
        for ai in &arrs {
            mark(&ai.array, &mut used);
        }
        for (i, c) in cells.iter().enumerate() {
            if !used[i] {
                continue;
            }
            let c = c.read().unwrap();
            for ip in c.layout.as_ref().unwrap().instances.iter() {
                let inst = ip.read().unwrap();
                match &inst.loc {
                    Place::Abs(xy) => {
                        let got = (xy.x.num as i64, xy.y.num as i64);
                        let want = if inst.inst_name == "a" { (1, 1) } else { (3, 1) };
                        if got != want {
                            return Err(format!("unit cell c{} (reached through an array only): instance {} placed at {:?}, expected {:?}; arrays {:?}", i, inst.inst_name, got, want, arrs));
                        }
                    }
                    Place::Rel(_) => return Err(format!("unit cell c{} is reached through an array among the objects awaiting placement (it is not listed in the library), and its instance {} still has a relative location after placement; arrays {:?}", i, inst.inst_name, arrs)),
                }
            }
        }
    }
    let topc = lib.cells.iter().find(|c| c.read().unwrap().name == "top").unwrap().clone();
    let topc = topc.read().unwrap();
    let mut got = vec![];
    for ip in topc.layout.as_ref().unwrap().instances.iter() {
        let inst = ip.read().unwrap();
        let loc = inst.loc.abs().map(|xy| (xy.x.num as i64, xy.y.num as i64)).map_err(|e| format!("{:?}", e))?;
        let cname = inst.cell.read().unwrap().name.clone();
        let ci: usize = cname[1..].parse().map_err(|_| "cell name")?;
        got.push((inst.inst_name.clone(), ci, loc, inst.reflect_horiz, inst.reflect_vert));
    }
    // which of the two lists (instances, placeable objects) comes first in the result is not specified
    got.sort();
    want.sort();
    if got != want {
        let i = got.iter().zip(want.iter()).position(|(a, b)| a != b).unwrap_or(got.len().min(want.len()));
        return Err(format!("array expansion differs at element {}: got {:?}, expected {:?} ({} vs {} instances; name, cell, location, reflect_horiz, reflect_vert)\narrays {:?}", i, got.get(i), want.get(i), got.len(), want.len(), arrs));
    }
    Ok(())
}

fn run(run: &mut Run) {
    run.rule("The single-relation table (4 sides x 2 orthogonal alignments x 4 reflections of the placed x 4 of the reference instance x 3 separation kinds = 384, exhaustive); random programs of 1-25 instances over 1-5 cell sizes: 1-3 absolute roots, every other instance placed relative to an earlier one (chains and trees), all sides/alignments/reflections/separations, instance indices relabelled and the listing shuffled, each placed in two listing orders; cyclic programs (cycle length 1-5 spliced in; one in five a cell that contains an instance of itself, directly or through a unit cell, absolute or relative, in `instances` or among the objects awaiting placement) must be errors; absolute array instances with count 0-6, pitch in x and/or y, both reflections, nesting depth <= 3, unit cells listed or reached through the arrays only (then holding a relative pair of their own that must be placed); programs whose instances are unnamed or share names. Oracle: bounding-box model of the relation; Instance::boundbox() must agree. Non-trivial = chain depth >= 2 with a reflected relative instance and a listing that is not dependency order; distinct by hash of the program.");
    run.assume("non-orthogonal side/alignment pairs, Center/Ports alignment, placement relative to arrays/groups and relative array placement are unimplemented in the code and outside the quantifier");
    run.min_nontrivial = 200;
    run.enumerate("relation-table", table_total(), &table_case);
    run.explore("programs", run.tier.pick(250_000, 3_000_000), 400, &program_case);
    // the same, each case in a thread of its own (per-thread state of the code starts from scratch)
    run.explore_fresh("programs", run.tier.pick(3_000, 40_000), 400, &program_case);
    run.explore("cyclic", run.tier.pick(40_000, 400_000), 400, &cyclic_case);
    run.literals("literals", &[vec![0]], &literal_case);
    run.explore("same-names", run.tier.pick(40_000, 400_000), 400, &same_names_case);
    run.explore("extreme-separations", run.tier.pick(20_000, 200_000), 40, &extreme_sep_case);
    run.explore("arrays", run.tier.pick(200_000, 2_000_000), 200, &array_case);
    // the same, each case in a thread of its own (per-thread state of the code starts from scratch)
    run.explore_fresh("arrays", run.tier.pick(3_000, 40_000), 200, &array_case);
}
fn case(sub: &str) -> Option<Box<CaseFn<'static>>> {
    match sub {
        "relation-table" => Some(Box::new(table_case)),
        "programs" => Some(Box::new(program_case)),
        "cyclic" => Some(Box::new(cyclic_case)),
        "literals" => Some(Box::new(literal_case)),
        "same-names" => Some(Box::new(same_names_case)),
        "extreme-separations" => Some(Box::new(extreme_sep_case)),
        "arrays" => Some(Box::new(array_case)),
        _ => None,
    }
}
fn render(sub: &str, choices: &[u32]) -> Option<String> {
    let mut src = Src::new(choices);
    match sub {
        "relation-table" => Some(format!("{:?}", table_program(src.u64()))),
        "programs" | "cyclic" | "same-names" => Some(format!("{:?}", gen_program(&mut src))),
        _ => None,
    }
}
