//! One module per property.
use crate::engine::{CaseFn, Run};

pub mod c01;
pub mod c04;
pub mod c06;
pub mod c07;
pub mod c08;
pub mod c09;
pub mod c10;
pub mod c11;
pub mod c12;
pub mod c13;
pub mod c14;
pub mod c15;
pub mod c16;
pub mod c17;
pub mod c18;
pub mod c19;
pub mod c20;
pub mod compat;
pub mod selftest;

pub struct PropDef {
    pub id: &'static str,
    pub level: &'static str,
    pub run: fn(&mut Run),
    /// the bare oracle of a sub-check, for replay and child processes
    pub case: fn(&str) -> Option<Box<CaseFn<'static>>>,
    /// human-readable rendering of a case
    pub render: fn(&str, &[u32]) -> Option<String>,
}

pub fn all() -> Vec<PropDef> {
    vec![c01::def_c01(), c01::def_c02(), c01::def_c03(), c04::def_c04(), c04::def_c05(), c06::def(), c07::def(), c08::def(), c09::def(), c10::def(), c11::def(), c12::def(), c13::def(), c14::def(), c15::def(), c16::def(), c17::def(), c18::def(), c19::def(), c20::def(), selftest::def_overflow(), selftest::def_spin()]
}
pub fn find(id: &str) -> Option<PropDef> {
    all().into_iter().find(|d| d.id == id)
}
pub fn lookup_case(prop: &str, sub: &str) -> Option<Box<CaseFn<'static>>> {
    find(prop).and_then(|d| (d.case)(sub))
}
