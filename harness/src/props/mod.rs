//! One module per property.
use crate::engine::{CaseFn, Run};

pub mod c01;
pub mod c04;
pub mod c06;
pub mod c07;
pub mod c08;
pub mod c09;
pub mod c10;
pub mod c11;
pub mod c12;
pub mod c13;
pub mod c14;
pub mod c15;
pub mod c16;
pub mod c17;
pub mod c18;
pub mod c19;
pub mod c20;
pub mod compat;
pub mod selftest;

pub struct PropDef {
    pub id: &'static str,
    pub level: &'static str,
    pub run: fn(&mut Run),
    /// the bare oracle of a sub-check, for replay and child processes
    pub case: fn(&str) -> Option<Box<CaseFn<'static>>>,
    /// human-readable rendering of a case
    pub render: fn(&str, &[u32]) -> Option<String>,
}

pub fn all() -> Vec<PropDef> {
    vec![c01::def_c01(), c01::def_c02(), c01::def_c03(), c04::def_c04(), c04::def_c05(), c06::def(), c07::def(), c08::def(), c09::def(), c10::def(), c11::def(), c12::def(), c13::def(), c14::def(), c15::def(), c16::def(), c17::def(), c18::def(), c19::def(), c20::def(), selftest::def_overflow(), selftest::def_spin()]
}
pub fn find(id: &str) -> Option<PropDef> {
    all().into_iter().find(|d| d.id == id)
}
pub fn lookup_case(prop: &str, sub: &str) -> Option<Box<CaseFn<'static>>> {
    // `<sub>-fresh-thread` is `<sub>` with every case run in a thread of its own
    if let Some(base) = sub.strip_suffix("-fresh-thread") {
        let inner = find(prop).and_then(|d| (d.case)(base))?;
        return Some(Box::new(move |s: &mut crate::engine::Src, c: &mut crate::engine::Ctx| crate::engine::in_fresh_thread(&*inner)(s, c)));
    }
    find(prop).and_then(|d| (d.case)(sub))
}

/// Sub-checks whose case function is also driven coverage-guided (libFuzzer over the choice
/// sequence) in the thorough tier: (sub-check, longest choice sequence in words, relative cost
/// class: runs are divided by it). Only in-process case functions qualify (no child processes, no
/// external binaries, no allocation counting).
pub fn fuzz_plan(prop: &str) -> Vec<(&'static str, usize, u32)> {
    match prop {
        "C01" => vec![("roundtrip", 1500, 2)],
        "C02" => vec![("wellformed", 1500, 2)],
        "C03" => vec![("conformant", 1500, 2)],
        "C04" => vec![("render-read", 2500, 8), ("negative", 1200, 4)],
        "C05" => vec![("write-read", 2500, 8)],
        "C06" => vec![("import", 900, 48)],
        "C07" => vec![("roundtrip", 900, 2), ("deep-chains", 2500, 24)],
        "C08" => vec![("compile", 700, 2), ("compile-asymmetric-flip", 700, 2), ("compile-unrealisable-cuts", 700, 2), ("compile-edge-ports", 700, 2)],
        "C09" => vec![("programs", 400, 2), ("cyclic", 400, 2), ("arrays", 200, 1)],
        "C12" => vec![("random-chains", 40, 1), ("flatten", 400, 1), ("general-angles", 60, 1), ("general-angles-flatten", 60, 1)],
        "C13" => vec![("polygons-random", 200, 1), ("polygons-many-vertices", 700, 40), ("polygons-large-coordinates", 60, 1), ("paths", 60, 1)],
        "C14" => vec![("raw-proto-raw", 1200, 2), ("proto-raw-proto", 1200, 2), ("raw-proto-raw-deep-chains", 2500, 24)],
        "C15" => vec![("random-doubles", 32 * 8, 1), ("random-reals", 32 * 9, 1), ("records", 40, 1), ("records-many-reals", 200, 4)],
        "C16" => vec![("import", 1500, 4)],
        "C17" => vec![("generic-random", 1500, 2), ("raw-cells", 900, 2), ("gds-structs", 900, 2), ("tetris-cells", 900, 2), ("tetris-proto-export", 900, 2), ("placement", 700, 2)],
        "C18" => vec![("gds-markup", 1800, 8), ("lef-markup", 2600, 8), ("scalars", 120, 2)],
        "C19" => vec![("roundtrip", 500, 2), ("negative", 520, 2), ("roundtrip-large", 4000, 48)],
        "C20" => vec![("raw-to-gds", 900, 48), ("raw-to-proto", 900, 48), ("gds-to-raw", 900, 64), ("proto-to-raw", 900, 48), ("raw-to-proto-large", 1500, 400), ("lef-raw-lef", 900, 48), ("tetris-to-raw-gds-proto", 900, 64)],
        _ => vec![],
    }
}
/// Seed corpus for the coverage-guided stage: `n` random choice sequences (little-endian words)
pub fn dump_choice_corpus(prop: &str, sub: &str, dir: &str, n: usize) {
    let _ = std::fs::create_dir_all(dir);
    let words = fuzz_plan(prop).iter().find(|p| p.0 == sub).map(|p| p.1).unwrap_or(256);
    for (i, v) in crate::engine::draw_vectors(crate::engine::env_seed(), &format!("{}-{}-corpus", prop, sub), n, words).iter().enumerate() {
        // a spread of lengths: the generators read zeros past the end
        let keep = words * (i + 1) / n;
        let bytes: Vec<u8> = v[..keep.max(1).min(v.len())].iter().flat_map(|w| w.to_le_bytes()).collect();
        let _ = std::fs::write(format!("{}/seed-{:04}", dir, i), bytes);
    }
}
