//! T00/T01 — self-tests of the engine's crash and hang isolation (not a property of Layout21;
//! not registered in MANIFEST.json). T00 overflows the stack on one case, T01 spins on one case.
use super::PropDef;
use crate::engine::{CaseFn, Ctx, Run, Src};

pub fn def_overflow() -> PropDef {
    PropDef { id: "T00", level: "exploration", run: run0, case: case0, render }
}
pub fn def_spin() -> PropDef {
    PropDef { id: "T01", level: "exploration", run: run1, case: case1, render }
}
#[inline(never)]
fn recurse(n: u64) -> u64 {
    let a = [n; 64];
    if n == u64::MAX {
        return 0;
    }
    std::hint::black_box(recurse(n + 1) + a[(n % 64) as usize])
}
fn overflow_case(src: &mut Src, ctx: &mut Ctx) -> Result<(), String> {
    let i = src.u64();
    ctx.nontrivial(i);
    if i == 5000 {
        std::hint::black_box(recurse(0));
    }
    Ok(())
}
fn spin_case(src: &mut Src, ctx: &mut Ctx) -> Result<(), String> {
    let i = src.u64();
    ctx.nontrivial(i);
    if i == 700 {
        let mut x = 1u64;
        loop {
            x = std::hint::black_box(x.wrapping_mul(3));
        }
    }
    Ok(())
}
fn run0(run: &mut Run) {
    run.enumerate("overflow", 20_000, &overflow_case);
}
fn run1(run: &mut Run) {
    run.enumerate("spin", 2_000, &spin_case);
}
fn case0(sub: &str) -> Option<Box<CaseFn<'static>>> {
    (sub == "overflow").then(|| Box::new(overflow_case) as Box<CaseFn<'static>>)
}
fn case1(sub: &str) -> Option<Box<CaseFn<'static>>> {
    (sub == "spin").then(|| Box::new(spin_case) as Box<CaseFn<'static>>)
}
fn render(_: &str, c: &[u32]) -> Option<String> {
    Some(format!("{:?}", c))
}
