//! C06 — importing GDSII into the raw model preserves the flattened geometry.
use super::PropDef;
use crate::engine::{hash_of, CaseFn, Ctx, Run, Src};
use crate::props::c13::{chamfer, gen_histogram, gen_star};
use crate::refmodel::geom as G;
use crate::refmodel::geom::{Affine, Orient, P};
use gds21 as g;
use layout21raw as raw;
use std::collections::BTreeMap;

pub fn def() -> PropDef {
    PropDef { id: "C06", level: "exploration", run, case, render }
}

// ---- model -------------------------------------------------------------------------------------------
#[derive(Clone, Debug, PartialEq, Eq, Hash, PartialOrd, Ord)]
pub enum CShape {
    Rect(P, P),
    Poly(Vec<P>),
    Path(Vec<P>, i64),
}
impl CShape {
    pub fn canon_polygon(pts: &[P]) -> CShape {
        match G::as_rect(pts) {
            Some((a, b)) => CShape::Rect(a, b),
            None => CShape::Poly(G::canon_polygon(pts)),
        }
    }
    pub fn canon_rect(a: P, b: P) -> CShape {
        CShape::Rect((a.0.min(b.0), a.1.min(b.1)), (a.0.max(b.0), a.1.max(b.1)))
    }
    pub fn canon_path(pts: &[P], w: i64) -> CShape {
        CShape::Path(G::canon_path(pts), w)
    }
    pub fn from_raw(s: &raw::Shape) -> CShape {
        let tp = |p: &raw::Point| (p.x as i64, p.y as i64);
        match s {
            raw::Shape::Rect(r) => CShape::canon_rect(tp(&r.p0), tp(&r.p1)),
            raw::Shape::Polygon(p) => CShape::canon_polygon(&p.points.iter().map(tp).collect::<Vec<_>>()),
            raw::Shape::Path(p) => CShape::canon_path(&p.points.iter().map(tp).collect::<Vec<_>>(), p.width as i64),
        }
    }
}
#[derive(Clone, Debug, Hash)]
pub enum HGeom {
    /// closed point list as written to the BOUNDARY (first == last)
    Boundary(Vec<P>),
    Box([P; 5]),
    Path(Vec<P>, i64),
}
#[derive(Clone, Debug, Hash)]
pub struct HShape {
    layer: i16,
    dt: i16,
    geom: HGeom,
}
impl HShape {
    fn canon(&self, a: &Affine) -> CShape {
        match &self.geom {
            HGeom::Boundary(pts) => CShape::canon_polygon(&pts.iter().map(|p| a.apply(*p)).collect::<Vec<_>>()),
            HGeom::Box(xy) => CShape::canon_rect(a.apply(xy[0]), a.apply(xy[2])),
            HGeom::Path(pts, w) => CShape::canon_path(&pts.iter().map(|p| a.apply(*p)).collect::<Vec<_>>(), *w),
        }
    }
    /// closed-region membership, None where the statement does not say (path cap/corner zones)
    fn contains(&self, p: P) -> Option<bool> {
        match &self.geom {
            HGeom::Boundary(pts) => Some(G::in_polygon(&pts[..pts.len() - 1], p)),
            HGeom::Box(xy) => Some(G::in_rect(xy[0], xy[2], p)),
            HGeom::Path(pts, w) => match G::path_zone(pts, *w, p) {
                G::Zone::MustBeInside => Some(true),
                G::Zone::MustBeOutside => Some(false),
                G::Zone::Unasserted => None,
            },
        }
    }
}
#[derive(Clone, Debug, Hash)]
pub struct HLabel {
    layer: i16,
    texttype: i16,
    string: String,
    loc: P,
}
#[derive(Clone, Debug, Hash)]
pub enum HRef {
    S { target: usize, loc: P, o: Orient, none_angle: bool, mag1: bool },
    A { target: usize, p0: P, colstep: P, rowstep: P, cols: i16, rows: i16, o: Orient, none_angle: bool },
}
#[derive(Clone, Debug, Hash)]
pub struct HStruct {
    name: String,
    shapes: Vec<HShape>,
    labels: Vec<HLabel>,
    refs: Vec<HRef>,
    /// interleaving order of elements when written: indices into a virtual list shapes++labels++refs
    order: Vec<usize>,
}
#[derive(Clone, Debug, Hash)]
pub struct HLib {
    structs: Vec<HStruct>,
    listing: Vec<usize>,
    units: (u64, u64),
}

/// Shorted nets: give some labels one or two twins with other names at the same spot. Which name a
/// shape ends up with is not specified (so C06 never generates this); that the outcome is the same
/// on every run is (C20).
pub fn add_conflicting_labels(src: &mut Src, m: &mut HLib) {
    for st in m.structs.iter_mut() {
        if st.labels.is_empty() || !src.bool() {
            continue;
        }
        let n0 = st.labels.len();
        for i in 0..n0 {
            let twins = src.weighted(&[2, 2, 1]);
            for t in 0..twins {
                let mut l = st.labels[i].clone();
                l.string = format!("{}_short{}", l.string, t);
                st.labels.push(l);
            }
        }
        let total = st.shapes.len() + st.labels.len() + st.refs.len();
        st.order = (0..total).collect();
        src.shuffle(&mut st.order);
    }
}

// ---- generator ---------------------------------------------------------------------------------------
const SLOT: i64 = 64; // each own shape of a struct lives in its own 40x40 window, windows 64 apart
fn gen_shape(src: &mut Src, slot: usize, allow_nonmanhattan_path: bool) -> HShape {
    let layer = match src.weighted(&[8, 1]) {
        0 => src.below(5) as i16,
        _ => *src.pick(&[i16::MAX, -1, 1000, i16::MIN]),
    };
    let dt = src.below(3) as i16;
    let (ox, oy) = ((slot as i64 % 8) * SLOT - 200, (slot as i64 / 8) * SLOT - 100);
    let sh = |p: P| (p.0 + ox, p.1 + oy);
    let geom = match src.weighted(&[3, 2, 2, 2]) {
        0 => {
            // rectangle as boundary, clockwise or counter-clockwise, any start corner
            let (x0, y0) = (src.i64_in(2, 18), src.i64_in(2, 18));
            let (x1, y1) = (x0 + src.i64_in(1, 18), y0 + src.i64_in(1, 18));
            let mut c = vec![(x0, y0), (x1, y0), (x1, y1), (x0, y1)];
            if src.bool() {
                c.reverse();
            }
            let r = src.index(4);
            c.rotate_left(r);
            c.push(c[0]);
            HGeom::Boundary(c.into_iter().map(sh).collect())
        }
        1 => {
            let v = match src.below(5) {
                0 => gen_histogram_local(src),
                1 => {
                    let h = gen_histogram_local4(src);
                    chamfer(src, &h)
                }
                2 => star_local(src),
                3 => near_rect(src),
                _ => small_grid_polygon(src),
            };
            let mut c: Vec<P> = v.into_iter().map(sh).collect();
            c.push(c[0]);
            HGeom::Boundary(c)
        }
        2 => {
            let (x0, y0) = (src.i64_in(2, 18), src.i64_in(2, 18));
            let (x1, y1) = (x0 + src.i64_in(1, 18), y0 + src.i64_in(1, 18));
            // GDS box: five points around the rectangle, either direction, any start
            let mut c = vec![(x0, y0), (x1, y0), (x1, y1), (x0, y1)];
            if src.bool() {
                c.reverse();
            }
            let r = src.index(4);
            c.rotate_left(r);
            HGeom::Box([sh(c[0]), sh(c[1]), sh(c[2]), sh(c[3]), sh(c[0])])
        }
        _ => {
            let n = src.usize_in(2, 5);
            let mut p = (src.i64_in(10, 30), src.i64_in(10, 30));
            let mut pts = vec![p];
            let mut horiz = src.bool();
            let nonman = allow_nonmanhattan_path && src.prob(1, 8);
            for _ in 1..n {
                let mut d = src.signed(8);
                if d == 0 {
                    d = 2;
                }
                p = if nonman { (p.0 + d, p.1 + src.signed(6)) } else if horiz { (p.0 + d, p.1) } else { (p.0, p.1 + d) };
                p = (p.0.clamp(6, 34), p.1.clamp(6, 34));
                if *pts.last().unwrap() != p {
                    pts.push(p);
                }
                horiz = !horiz;
            }
            if pts.len() < 2 {
                pts.push((pts[0].0 + 3, pts[0].1));
            }
            // one path in ten is a ring: a rectangular loop that ends on the point it started from (still an
            // open poly-line as far as the format goes: five points, four sides)
            if src.prob(1, 10) {
                let (a, b) = ((src.i64_in(8, 16), src.i64_in(8, 16)), (src.i64_in(22, 32), src.i64_in(22, 32)));
                pts = vec![a, (b.0, a.1), b, (a.0, b.1), a];
            }
            HGeom::Path(pts.into_iter().map(sh).collect(), src.i64_in(0, 8))
        }
    };
    HShape { layer, dt, geom }
}
fn fit(v: Vec<P>) -> Vec<P> {
    // no consecutive duplicates (also across the wrap-around): with them "the same polygon" has
    // several point lists and the closing point becomes ambiguous
    let mut d: Vec<P> = vec![];
    for p in v {
        if d.last() != Some(&p) {
            d.push(p);
        }
    }
    while d.len() > 1 && d.first() == d.last() {
        d.pop();
    }
    let v = d;
    // translate/scale-free fit into the 40x40 window: shift to positive quadrant, reject if too big
    let (x0, y0) = (v.iter().map(|p| p.0).min().unwrap(), v.iter().map(|p| p.1).min().unwrap());
    let w: Vec<P> = v.iter().map(|p| (p.0 - x0 + 1, p.1 - y0 + 1)).collect();
    if w.iter().all(|p| p.0 <= 40 && p.1 <= 40) {
        w
    } else {
        vec![(1, 1), (9, 1), (9, 5), (5, 5), (5, 9), (1, 9)] // L-shape fallback
    }
}
fn gen_histogram_local(src: &mut Src) -> Vec<P> {
    fit(gen_histogram(src, 1))
}
fn gen_histogram_local4(src: &mut Src) -> Vec<P> {
    let h = gen_histogram(src, 4);
    let f = fit(h.clone());
    f
}
fn star_local(src: &mut Src) -> Vec<P> {
    let s = gen_star(src);
    let f = fit(s);
    if G::is_simple(&f) {
        f
    } else {
        vec![(1, 1), (20, 3), (10, 20)]
    }
}
/// A rectangle with one corner moved along one axis: right trapezoids and other "almost
/// rectangles" (three axis-parallel edges), from any start vertex, either direction.
fn near_rect(src: &mut Src) -> Vec<P> {
    let (x0, y0) = (src.i64_in(2, 10), src.i64_in(2, 10));
    let (x1, y1) = (x0 + src.i64_in(4, 20), y0 + src.i64_in(4, 20));
    let mut c = vec![(x0, y0), (x1, y0), (x1, y1), (x0, y1)];
    let k = src.index(4);
    let d = src.i64_in(1, 3);
    match src.below(2) {
        0 => c[k].0 += if c[k].0 == x0 { d } else { -d },
        _ => c[k].1 += if c[k].1 == y0 { d } else { -d },
    }
    if src.bool() {
        c.reverse();
    }
    let r = src.index(4);
    c.rotate_left(r);
    c
}
/// Random 3-5 vertex polygon on a 6x6 grid (scaled); falls back to a trapezoid if not simple.
fn small_grid_polygon(src: &mut Src) -> Vec<P> {
    let n = src.usize_in(3, 5);
    let sc = src.i64_in(1, 6);
    let v: Vec<P> = (0..n).map(|_| (1 + sc * src.i64_in(0, 5), 1 + sc * src.i64_in(0, 5))).collect();
    let distinct = (0..v.len()).all(|i| v[i] != v[(i + 1) % v.len()]);
    if distinct && G::is_simple(&v) {
        v
    } else {
        vec![(1, 1), (21, 1), (21, 6), (1, 11)]
    }
}
fn is_manhattan(pts: &[P]) -> bool {
    pts.windows(2).all(|w| w[0].0 == w[1].0 || w[0].1 == w[1].1)
}
fn mixed_case(src: &mut Src) -> String {
    let base = *src.pick(&["vdd", "Net1", "OUT", "clk_A", "gnd!", "Q[3]", "straße", "a", "ÄB", "", "n 1"]);
    base.to_string()
}
fn gen_orient(src: &mut Src) -> Orient {
    Orient::from_index(src.index(8))
}
pub fn gen_lib(src: &mut Src) -> HLib {
    let ns = src.usize_in(1, 5);
    let name_style = src.weighted(&[6, 1, 1]);
    let mut structs: Vec<HStruct> = vec![];
    for si in 0..ns {
        let nshapes = src.usize_in(if si == 0 { 1 } else { 0 }, 4);
        let mut shapes = vec![];
        for k in 0..nshapes {
            shapes.push(gen_shape(src, k, true));
        }
        // labels
        let mut labels: Vec<HLabel> = vec![];
        let mut labelled_layers: Vec<i16> = vec![];
        for (k, sh) in shapes.iter().enumerate() {
            if !src.prob(3, 5) {
                continue;
            }
            let string = mixed_case(src);
            // candidate locations by class
            let cand: Vec<P> = match &sh.geom {
                HGeom::Boundary(pts) => {
                    let v = &pts[..pts.len() - 1];
                    let i = src.index(v.len());
                    let (a, b) = (v[i], v[(i + 1) % v.len()]);
                    vec![
                        v[i],                                   // on a vertex
                        ((a.0 + b.0) / 2, (a.1 + b.1) / 2),     // on (or next to) an edge
                        interior_point(v),                      // inside
                        (a.0 - 45, a.1),                        // outside (still clear of other windows? checked below)
                    ]
                }
                HGeom::Box(xy) => vec![xy[0], ((xy[0].0 + xy[2].0) / 2, (xy[0].1 + xy[2].1) / 2), ((xy[0].0 + xy[1].0) / 2, (xy[0].1 + xy[1].1) / 2)],
                HGeom::Path(pts, w) => {
                    let i = src.index(pts.len() - 1);
                    // diagonally behind the first / beyond the last point: inside the width-square around that
                    // end but farther than half the width from the path (outside under flush and round ends alike)
                    let h = (*w / 2).max(1);
                    let (a, b) = (pts[0], pts[1]);
                    let d0 = ((b.0 - a.0).signum(), (b.1 - a.1).signum());
                    let behind = (a.0 - d0.0 * h + d0.1 * h, a.1 - d0.1 * h + d0.0 * h);
                    let (y, z) = (pts[pts.len() - 2], pts[pts.len() - 1]);
                    let d1 = ((z.0 - y.0).signum(), (z.1 - y.1).signum());
                    let beyond = (z.0 + d1.0 * h - d1.1 * h, z.1 + d1.1 * h - d1.0 * h);
                    // beside the centre line, inside the wire: off the bounding box of the centre-line points
                    // when the wire is straight (only for Manhattan segments, where "inside" is decided exactly)
                    let (p, q) = (pts[i], pts[i + 1]);
                    let mid = ((p.0 + q.0) / 2, (p.1 + q.1) / 2);
                    let dir = ((q.0 - p.0).signum(), (q.1 - p.1).signum());
                    let k = (*w / 2 - 1).max(0);
                    let beside = if dir.0 == 0 || dir.1 == 0 { (mid.0 + dir.1 * k, mid.1 + dir.0 * k) } else { mid };
                    let beside2 = if dir.0 == 0 || dir.1 == 0 { (mid.0 - dir.1 * k, mid.1 - dir.0 * k) } else { mid };
                    vec![pts[i], mid, (pts[i].0, pts[i].1 + 30), behind, beyond, beside, beside2]
                }
            };
            let loc = cand[src.index(cand.len())];
            let same_layer = !src.prob(1, 5);
            let layer = if same_layer { sh.layer } else { sh.layer.wrapping_add(7) };
            // keep the label only if its relation to EVERY own shape on that layer number is decided
            let decided = shapes.iter().filter(|s| s.layer == layer).all(|s| s.contains(loc).is_some() && (matches!(s.geom, HGeom::Path(ref p, _) if is_manhattan(p)) || !matches!(s.geom, HGeom::Path(..))));
            let hits: Vec<usize> = shapes.iter().enumerate().filter(|(_, s)| s.layer == layer && s.contains(loc) == Some(true)).map(|(i, _)| i).collect();
            // never two different names on one shape
            let clash = hits.iter().any(|h| labels.iter().any(|l| l.layer == layer && shapes[*h].contains(l.loc) == Some(true) && l.string.to_lowercase() != string.to_lowercase()));
            if decided && !clash {
                labels.push(HLabel { layer, texttype: src.below(4) as i16, string, loc });
                labelled_layers.push(layer);
            }
            let _ = k;
        }
        // a non-Manhattan path may not share its layer number with any label (contains() is documented unsupported there)
        shapes.retain(|s| match &s.geom {
            HGeom::Path(p, _) if !is_manhattan(p) => !labelled_layers.contains(&s.layer),
            _ => true,
        });
        // now and then a boundary that spans the whole 32-bit range in both directions (a triangle over half the
        // plane, on a layer of its own), with a label right at, just inside or just outside its long edge
        if src.prob(1, 12) {
            const LO: i64 = i32::MIN as i64;
            const HI: i64 = i32::MAX as i64;
            shapes.push(HShape { layer: 177, dt: 0, geom: HGeom::Boundary(vec![(LO, LO), (HI, LO), (LO, HI), (LO, LO)]) });
            // the long edge is x + y = -1
            let x = *src.pick(&[0i64, 1000, -123_456_789, 1_000_000_000, 7]);
            let loc = (x, -1 - x + *src.pick(&[0i64, 1, -1, 2, -1000]));
            labels.push(HLabel { layer: 177, texttype: 0, string: "half_plane".into(), loc });
            labelled_layers.push(177);
        }
        // references to earlier structs
        let mut refs = vec![];
        if si > 0 {
            let nr = src.usize_in(0, 3);
            for _ in 0..nr {
                let target = if src.bool() { si - 1 } else { src.index(si) };
                let o = gen_orient(src);
                if src.prob(1, 3) {
                    let big = src.prob(1, 40);
                    let (cols, rows) = if big { (src.i64_in(150, 300) as i16, src.i64_in(120, 300) as i16) } else { (src.i64_in(1, 4) as i16, src.i64_in(1, 4) as i16) };
                    // literal GDSII lattice: steps are arbitrary vectors (rotated/skewed lattices included)
                    let axis = src.weighted(&[3, 1, 1]);
                    let (colstep, rowstep) = match axis {
                        0 => ((src.i64_in(1, 300), 0), (0, src.i64_in(1, 300))),
                        1 => ((0, src.signed(300)), (src.signed(300), 0)), // lattice rotated by 90 degrees
                        _ => ((src.signed(200), src.signed(50)), (src.signed(50), src.signed(200))),
                    };
                    refs.push(HRef::A { target, p0: (src.signed(2000), src.signed(2000)), colstep, rowstep, cols, rows, o, none_angle: src.bool() });
                } else {
                    // one placement in eight sits at the far end of the 32-bit coordinate range: the flattened
                    // position (shape coordinate plus placement offsets) then lies beyond it, which is no error
                    let far = |src: &mut Src| -> i64 { *src.pick(&[i32::MAX as i64, i32::MIN as i64, 2_000_000_000, -2_000_000_000, 1_500_000_000]) };
                    let loc = if src.prob(1, 8) {
                        let (fx, fy) = (far(src), far(src));
                        match src.below(3) {
                            0 => (fx, src.signed(3000)),
                            1 => (src.signed(3000), fy),
                            _ => (fx, fy),
                        }
                    } else {
                        (src.signed(3000), src.signed(3000))
                    };
                    refs.push(HRef::S { target, loc, o, none_angle: src.bool(), mag1: src.prob(1, 6) });
                }
            }
        }
        // the same reference twice in a row (two copies of a cell on top of each other are two placements)
        if !refs.is_empty() && src.prob(1, 6) {
            let k = src.index(refs.len());
            let d = refs[k].clone();
            refs.insert(k + 1, d);
        }
        let total = shapes.len() + labels.len() + refs.len();
        let mut order: Vec<usize> = (0..total).collect();
        src.shuffle(&mut order);
        // struct names are case-sensitive (`S0` and `s0` are two structs) and need not be short
        let name = match name_style {
            0 => format!("S{}", si),
            1 => if si % 2 == 1 { format!("s{}", si - 1) } else { format!("S{}", si) },
            _ => format!("S{}_sky130_fd_sc_hd__lpflow_inputisolatch_1", si),
        };
        structs.push(HStruct { name, shapes, labels, refs, order });
    }
    let mut listing: Vec<usize> = (0..ns).collect();
    src.shuffle(&mut listing);
    let units = match src.weighted(&[6, 2, 2, 2, 1, 1]) {
        0 => (1e-3f64.to_bits(), 1e-9f64.to_bits()),
        1 => (1.0f64.to_bits(), 1e-6f64.to_bits()),
        2 => (1e-4f64.to_bits(), 1e-10f64.to_bits()),
        3 => (1e-3f64.to_bits(), (1e-9f64.to_bits() as i64 + src.signed(2)) as u64), // floating neighbours of 1 nm
        4 => (1e-6f64.to_bits(), 1e-12f64.to_bits()),
        _ => (1.0f64.to_bits(), *src.pick(&[1e-3f64, 2e-9, 5e-7, 1e-8]) as f64).pipe_bits(),
    };
    HLib { structs, listing, units }
}
trait PipeBits {
    fn pipe_bits(self) -> (u64, u64);
}
impl PipeBits for (u64, f64) {
    fn pipe_bits(self) -> (u64, u64) {
        (self.0, self.1.to_bits())
    }
}
/// Some point strictly inside a simple polygon (search the bounding box)
fn interior_point(v: &[P]) -> P {
    let (x0, x1) = (v.iter().map(|p| p.0).min().unwrap(), v.iter().map(|p| p.0).max().unwrap());
    let (y0, y1) = (v.iter().map(|p| p.1).min().unwrap(), v.iter().map(|p| p.1).max().unwrap());
    let n = v.len();
    for y in y0..=y1 {
        for x in x0..=x1 {
            if G::in_polygon(v, (x, y)) && !(0..n).any(|i| G::on_segment(v[i], v[(i + 1) % n], (x, y))) {
                return (x, y);
            }
        }
    }
    v[0]
}

// ---- to gds21 ------------------------------------------------------------------------------------------
fn gp(p: P) -> g::GdsPoint {
    g::GdsPoint::new(p.0 as i32, p.1 as i32)
}
fn strans(o: &Orient, none_angle: bool, mag1: bool, salt: i64) -> Option<g::GdsStrans> {
    // the same orientation spelled with whole turns more or less (-90 for 270, 450 for 90), by content
    let turns = [0.0, 0.0, 0.0, -1.0, 0.0, 1.0, 0.0, -2.0, 0.0][salt.rem_euclid(9) as usize];
    if !o.refl && o.rot == 0 && none_angle && !mag1 {
        return None;
    }
    Some(g::GdsStrans { reflected: o.refl, angle: if o.rot == 0 && none_angle { None } else { Some(o.angle() + 360.0 * turns) }, mag: if mag1 { Some(1.0) } else { None }, ..Default::default() })
}
pub fn to_gds(m: &HLib) -> g::GdsLibrary {
    let mut lib = g::GdsLibrary::new("hlib");
    lib.units = g::GdsUnits(f64::from_bits(m.units.0), f64::from_bits(m.units.1));
    for &si in &m.listing {
        let s = &m.structs[si];
        let mut st = g::GdsStruct::new(s.name.clone());
        for &k in &s.order {
            if k < s.shapes.len() {
                let sh = &s.shapes[k];
                st.elems.push(match &sh.geom {
                    HGeom::Boundary(pts) => g::GdsElement::GdsBoundary(g::GdsBoundary { layer: sh.layer, datatype: sh.dt, xy: pts.iter().map(|p| gp(*p)).collect(), ..Default::default() }),
                    HGeom::Box(xy) => g::GdsElement::GdsBox(g::GdsBox { layer: sh.layer, boxtype: sh.dt, xy: [gp(xy[0]), gp(xy[1]), gp(xy[2]), gp(xy[3]), gp(xy[4])], ..Default::default() }),
                    HGeom::Path(pts, w) => g::GdsElement::GdsPath(g::GdsPath { layer: sh.layer, datatype: sh.dt, xy: pts.iter().map(|p| gp(*p)).collect(), width: Some(*w as i32), ..Default::default() }),
                });
            } else if k < s.shapes.len() + s.labels.len() {
                let l = &s.labels[k - s.shapes.len()];
                st.elems.push(g::GdsElement::GdsTextElem(g::GdsTextElem { string: l.string.clone(), layer: l.layer, texttype: l.texttype, xy: gp(l.loc), ..Default::default() }));
            } else {
                match &s.refs[k - s.shapes.len() - s.labels.len()] {
                    HRef::S { target, loc, o, none_angle, mag1 } => st.elems.push(g::GdsElement::GdsStructRef(g::GdsStructRef { name: m.structs[*target].name.clone(), xy: gp(*loc), strans: strans(o, *none_angle, *mag1, loc.0 + 3 * loc.1), ..Default::default() })),
                    HRef::A { target, p0, colstep, rowstep, cols, rows, o, none_angle } => {
                        let p1 = (p0.0 + *cols as i64 * colstep.0, p0.1 + *cols as i64 * colstep.1);
                        let p2 = (p0.0 + *rows as i64 * rowstep.0, p0.1 + *rows as i64 * rowstep.1);
                        st.elems.push(g::GdsElement::GdsArrayRef(g::GdsArrayRef { name: m.structs[*target].name.clone(), xy: [gp(*p0), gp(p1), gp(p2)], cols: *cols, rows: *rows, strans: strans(o, *none_angle, false, p0.0 + 3 * p0.1), ..Default::default() }))
                    }
                }
            }
        }
        lib.structs.push(st);
    }
    lib
}

// ---- reference semantics --------------------------------------------------------------------------------
type Flat = BTreeMap<(i16, i16, CShape), usize>;
fn model_flatten(m: &HLib, si: usize, a: &Affine, out: &mut Flat, budget: &mut i64) {
    let s = &m.structs[si];
    for sh in &s.shapes {
        *out.entry((sh.layer, sh.dt, sh.canon(a))).or_default() += 1;
        *budget -= 1;
    }
    for r in &s.refs {
        if *budget < 0 {
            return;
        }
        match r {
            HRef::S { target, loc, o, .. } => model_flatten(m, *target, &a.then_child(&Affine::placement(*loc, *o)), out, budget),
            HRef::A { target, p0, colstep, rowstep, cols, rows, o, .. } => {
                for c in 0..*cols as i64 {
                    for r in 0..*rows as i64 {
                        let loc = (p0.0 + c * colstep.0 + r * rowstep.0, p0.1 + c * colstep.1 + r * rowstep.1);
                        model_flatten(m, *target, &a.then_child(&Affine::placement(loc, *o)), out, budget);
                    }
                }
            }
        }
    }
}
fn flat_size(m: &HLib, si: usize, memo: &mut Vec<Option<u64>>) -> u64 {
    if let Some(v) = memo[si] {
        return v;
    }
    let s = &m.structs[si];
    // shapes plus placements: a placement of an empty struct costs a visit all the same (arrays of arrays of
    // an empty struct flatten to nothing, after billions of visits)
    let mut n = s.shapes.len() as u64;
    for r in &s.refs {
        match r {
            HRef::S { target, .. } => n = n.saturating_add(1u64.saturating_add(flat_size(m, *target, memo))),
            HRef::A { target, cols, rows, .. } => n = n.saturating_add((*cols as u64 * *rows as u64).saturating_mul(1u64.saturating_add(flat_size(m, *target, memo)))),
        }
    }
    memo[si] = Some(n);
    n
}
fn layer_nums(layers: &raw::Layers, e: &raw::Element) -> Result<(i16, i16), String> {
    let l = layers.get(e.layer).ok_or("element on a layer key missing from the library's Layers")?;
    let p = l.num(&e.purpose).ok_or_else(|| format!("purpose {:?} has no number on layer {}", e.purpose, l.layernum))?;
    Ok((l.layernum, p))
}

fn oracle(m: &HLib, ctx: &mut Ctx) -> Result<(), String> {
    let gds = to_gds(m);
    let has_rr = m.structs.iter().any(|s| s.refs.iter().any(|r| matches!(r, HRef::S { o, .. } | HRef::A { o, .. } if o.refl && o.rot % 2 == 1)));
    let has_nonid = m.structs.iter().any(|s| s.refs.iter().any(|r| matches!(r, HRef::S { o, .. } | HRef::A { o, .. } if o.refl || o.rot != 0)));
    let has_arr = m.structs.iter().any(|s| s.refs.iter().any(|r| matches!(r, HRef::A { .. })));
    let has_label = m.structs.iter().any(|s| !s.labels.is_empty());
    let lib = match raw::Library::from_gds(&gds, None) {
        Err(e) => {
            let msg = format!("{:?}", e);
            ctx.refused(if msg.contains("Units") { "import refused: units" } else if msg.contains("Magnitude") { "import refused: array with explicit magnification 1.0" } else { "import refused: other" });
            return Ok(());
        }
        Ok(l) => l,
    };
    if (has_nonid || has_arr) && has_label {
        ctx.nontrivial(hash_of(m));
    }
    if has_rr {
        ctx.label("reference reflected and rotated by 90/270");
    }
    if has_arr {
        ctx.label("array reference");
    }
    if m.structs.iter().any(|st| st.refs.iter().any(|r| matches!(r, HRef::S { loc, .. } if loc.0.abs() > 1_000_000_000 || loc.1.abs() > 1_000_000_000))) {
        ctx.label("placement at the far end of the 32-bit coordinate range");
    }
    // where the labels sit relative to the shapes of their own struct, and which shapes there are
    for st in &m.structs {
        for sh in &st.shapes {
            ctx.label(match &sh.geom {
                HGeom::Boundary(p) if p.len() == 5 && p.iter().all(|q| (q.0 == p[0].0 || q.0 == p[2].0) && (q.1 == p[0].1 || q.1 == p[2].1)) => "shape: rectangle boundary",
                HGeom::Boundary(_) => "shape: polygon boundary",
                HGeom::Box(_) => "shape: box",
                HGeom::Path(p, _) if is_manhattan(p) => "shape: Manhattan path",
                HGeom::Path(..) => "shape: non-Manhattan path",
            });
        }
        for l in &st.labels {
            let on = st.shapes.iter().filter(|s| s.layer == l.layer).collect::<Vec<_>>();
            let hit = on.iter().filter(|s| s.contains(l.loc) == Some(true)).count();
            let on_vertex = on.iter().any(|s| match &s.geom {
                HGeom::Boundary(p) => p.contains(&l.loc),
                HGeom::Box(p) => p.contains(&l.loc),
                HGeom::Path(p, _) => p.contains(&l.loc),
            });
            ctx.label(match (hit, on_vertex) {
                (0, _) if on.is_empty() => "label on a layer without shapes (annotation)",
                (0, _) => "label outside every shape of its layer (annotation)",
                (1, true) => "label on a vertex / path point of the shape it names",
                (1, false) => "label inside or on an edge of the shape it names",
                _ => "label naming several shapes",
            });
        }
    }
    ctx.label(&format!("{} structs", m.structs.len()));
    ctx.sample("hierarchical GDSII library", || format!("{:?}", m));
    let layers = lib.layers.read().map_err(|_| "layers lock")?;
    // cells by name
    let mut cells: BTreeMap<String, raw::utils::Ptr<raw::Cell>> = BTreeMap::new();
    for c in lib.cells.iter() {
        let name = c.read().map_err(|_| "cell lock")?.name.clone();
        if cells.insert(name.clone(), c.clone()).is_some() {
            return Err(format!("cell {} imported twice", name));
        }
    }
    if cells.len() != m.structs.len() {
        return Err(format!("{} structs imported as {} cells", m.structs.len(), cells.len()));
    }
    let mut memo = vec![None; m.structs.len()];
    for (si, s) in m.structs.iter().enumerate() {
        let cell = cells.get(&s.name).ok_or_else(|| format!("struct {} missing after import", s.name))?.read().map_err(|_| "cell lock")?;
        let layout = cell.layout.as_ref().ok_or_else(|| format!("cell {} has no layout", s.name))?;
        // (1) own shapes with their nets
        // (with labels of different names in one shape - the `shorted-labels` sub-check - which of the names the
        // shape ends up with is left open: it must be one of them, and none of those labels is an annotation)
        let shorted = SHORTED.with(|c| c.get());
        let mut want: BTreeMap<(i16, i16, CShape, Option<String>), usize> = BTreeMap::new();
        for sh in &s.shapes {
            let net = if shorted { None } else { s.labels.iter().find(|l| l.layer == sh.layer && sh.contains(l.loc) == Some(true)).map(|l| l.string.to_lowercase()) };
            *want.entry((sh.layer, sh.dt, sh.canon(&Affine::identity()), net)).or_default() += 1;
        }
        let mut got: BTreeMap<(i16, i16, CShape, Option<String>), usize> = BTreeMap::new();
        for e in &layout.elems {
            let (l, p) = layer_nums(&layers, e)?;
            let canon = CShape::from_raw(&e.inner);
            if shorted {
                let allowed: Vec<String> = s.shapes.iter().filter(|sh| sh.layer == l && sh.dt == p && sh.canon(&Affine::identity()) == canon).flat_map(|sh| s.labels.iter().filter(move |lb| lb.layer == sh.layer && sh.contains(lb.loc) == Some(true)).map(|lb| lb.string.to_lowercase())).collect();
                match &e.net {
                    None if !allowed.is_empty() => return Err(format!("cell {}: shape {:?} on {}/{} holds labels {:?} but came back without a net", s.name, canon, l, p, allowed)),
                    Some(n) if !allowed.contains(n) => return Err(format!("cell {}: shape {:?} on {}/{} came back with net {:?}, which none of the labels inside it ({:?}) spells", s.name, canon, l, p, n, allowed)),
                    _ => {}
                }
            }
            *got.entry((l, p, canon, if shorted { None } else { e.net.clone() })).or_default() += 1;
        }
        if got != want {
            return Err(format!("cell {}: shapes/nets differ from the GDSII data. expected-but-missing {:?}; unexpected {:?}; struct {:?}", s.name, diff(&want, &got), diff(&got, &want), s));
        }
        // (2) labels that hit nothing survive as annotations
        let mut want_ann: BTreeMap<(String, P), usize> = BTreeMap::new();
        for l in &s.labels {
            if !s.shapes.iter().any(|sh| sh.layer == l.layer && sh.contains(l.loc) == Some(true)) {
                *want_ann.entry((l.string.clone(), l.loc)).or_default() += 1;
            }
        }
        let mut got_ann: BTreeMap<(String, P), usize> = BTreeMap::new();
        for a in &layout.annotations {
            *got_ann.entry((a.string.clone(), (a.loc.x as i64, a.loc.y as i64))).or_default() += 1;
        }
        if got_ann != want_ann {
            return Err(format!("cell {}: annotations {:?}, expected {:?} (labels that lie in no shape on their layer)", s.name, got_ann, want_ann));
        }
        // (3) flattened geometry under GDSII semantics
        let size = flat_size(m, si, &mut memo);
        if size > 400_000 {
            ctx.label("flatten skipped: more than 400k shapes and placements");
            continue;
        }
        let mut wantf: Flat = BTreeMap::new();
        let mut budget = 500_000i64;
        model_flatten(m, si, &Affine::identity(), &mut wantf, &mut budget);
        let flat = layout.flatten().map_err(|e| format!("flatten of cell {} failed: {:?}", s.name, e))?;
        let mut gotf: Flat = BTreeMap::new();
        for e in &flat {
            let (l, p) = layer_nums(&layers, e)?;
            *gotf.entry((l, p, CShape::from_raw(&e.inner))).or_default() += 1;
        }
        if gotf != wantf {
            let nw: usize = wantf.values().sum();
            let ng: usize = gotf.values().sum();
            return Err(format!("cell {}: flattened geometry differs from flattening the GDSII data ({} shapes expected, {} found). expected-but-missing {:?}; unexpected {:?}; refs {:?}", s.name, nw, ng, diff(&wantf, &gotf), diff(&gotf, &wantf), s.refs));
        }
        if size > 30_000 {
            ctx.label("large array flattened (rows*cols beyond 32767)");
        }
    }
    Ok(())
}
fn diff<K: Ord + Clone + std::fmt::Debug>(a: &BTreeMap<K, usize>, b: &BTreeMap<K, usize>) -> Vec<K> {
    a.iter().filter(|(k, n)| b.get(*k).copied().unwrap_or(0) < **n).map(|(k, _)| k.clone()).take(2).collect()
}
thread_local! {
    static SHORTED: std::cell::Cell<bool> = const { std::cell::Cell::new(false) };
}
/// Labels of different names inside one shape (shorted nets): the shape is named by one of them, every one of
/// them has named a shape and so none of them survives as an annotation; geometry as ever.
fn shorted_case(src: &mut Src, ctx: &mut Ctx) -> Result<(), String> {
    let mut m = gen_lib(src);
    add_conflicting_labels(src, &mut m);
    ctx.label("labels of different names inside one shape");
    SHORTED.with(|c| c.set(true));
    let r = oracle(&m, ctx);
    SHORTED.with(|c| c.set(false));
    r
}
fn main_case(src: &mut Src, ctx: &mut Ctx) -> Result<(), String> {
    let m = gen_lib(src);
    oracle(&m, ctx)
}

// ---- malformed hierarchies: the required outcome is an error ----------------------------------------------
fn gen_malformed(src: &mut Src) -> (g::GdsLibrary, &'static str) {
    let m = gen_lib(src);
    let mut gds = to_gds(&m);
    gds.units = g::GdsUnits(1e-3, 1e-9);
    let n = gds.structs.len();
    let kind = src.below(5);
    let si = src.index(n);
    let what = match kind {
        0 => {
            gds.structs[si].elems.push(g::GdsElement::GdsStructRef(g::GdsStructRef { name: "NOSUCH".into(), xy: g::GdsPoint::new(0, 0), ..Default::default() }));
            "dangling reference"
        }
        1 => {
            // cycle of length 1..4 through fresh structs
            let len = src.usize_in(1, 4);
            let base = gds.structs.len();
            for k in 0..len {
                let mut s = g::GdsStruct::new(format!("CYC{}", k));
                let next = format!("CYC{}", (k + 1) % len);
                if src.bool() {
                    s.elems.push(g::GdsElement::GdsStructRef(g::GdsStructRef { name: next, xy: g::GdsPoint::new(1, 1), ..Default::default() }));
                } else {
                    s.elems.push(g::GdsElement::GdsArrayRef(g::GdsArrayRef { name: next, xy: [g::GdsPoint::new(0, 0), g::GdsPoint::new(10, 0), g::GdsPoint::new(0, 10)], cols: 1, rows: 1, ..Default::default() }));
                }
                gds.structs.push(s);
            }
            let at = src.index(base + 1);
            let s = gds.structs.remove(base);
            gds.structs.insert(at, s);
            "reference cycle"
        }
        2 => {
            let (cols, rows) = *src.pick(&[(0i16, 1i16), (1, 0), (0, 0), (3, 0), (0, 5)]);
            gds.structs.push(g::GdsStruct::new("LEAFZ"));
            let leaf = gds.structs.len() - 1;
            gds.structs[si].elems.push(g::GdsElement::GdsArrayRef(g::GdsArrayRef { name: "LEAFZ".into(), xy: [g::GdsPoint::new(0, 0), g::GdsPoint::new(10, 0), g::GdsPoint::new(0, 10)], cols, rows, ..Default::default() }));
            let _ = leaf;
            "array with zero rows or columns"
        }
        3 => {
            gds.structs[si].elems.push(g::GdsElement::GdsBoundary(g::GdsBoundary { layer: 1, datatype: 0, xy: vec![], ..Default::default() }));
            "boundary with an empty coordinate list"
        }
        _ => {
            let own = gds.structs[si].name.clone();
            gds.structs[si].elems.push(g::GdsElement::GdsStructRef(g::GdsStructRef { name: own, xy: g::GdsPoint::new(5, 5), ..Default::default() }));
            "self reference"
        }
    };
    (gds, what)
}
fn malformed_case(src: &mut Src, ctx: &mut Ctx) -> Result<(), String> {
    let (gds, what) = gen_malformed(src);
    ctx.label(&format!("malformed: {}", what));
    ctx.nontrivial(hash_of(&format!("{:?}", gds.structs)));
    ctx.sample("malformed hierarchy", || format!("{}: structs {:?}", what, gds.structs.iter().map(|s| s.name.clone()).collect::<Vec<_>>()));
    match raw::Library::from_gds(&gds, None) {
        Err(_) => Ok(()),
        Ok(_) => Err(format!("malformed GDSII library ({}) was imported instead of reported as an error", what)),
    }
}

fn run(run: &mut Run) {
    run.rule("GDSII libraries with acyclic hierarchies of 1-5 structs in shuffled listing order: boundaries (rectangles cw/ccw from any corner, histogram/45-degree/star polygons), boxes, Manhattan and a few non-Manhattan paths, SREFs in all eight orientations (angle None/Some, now and then spelled with whole turns more or less; mag None/Some(1.0)), AREFs with literal lattices (axis-parallel, rotated, skewed; cols x rows up to 300x300), labels on vertices / edges / inside / outside shapes, same and other layer, mixed case; supported, neighbouring and unsupported units. Oracle: reference flattening under GDSII semantics + exact point-in-shape. Malformed class (dangling, cyclic, self reference, zero rows/cols, empty boundary) must be an error. Non-trivial = import succeeded, library has a non-identity reference or an array, and a label; distinct by hash of the model.");
    run.assume("MAG other than 1, absolute flags, nodes, duplicate struct names, two different labels on one shape, labels in a path's cap/corner zones are not generated");
    run.assume("an import error on a well-formed library is accepted by the statement and counted as refused");
    run.min_nontrivial = 200;
    run.explore("import", run.tier.pick(16_000, 250_000), 900, &main_case);
    // the same, each case in a thread of its own (per-thread state of the code starts from scratch)
    run.explore_fresh("import", run.tier.pick(3_000, 40_000), 900, &main_case);
    run.explore("shorted-labels", run.tier.pick(6_000, 60_000), 900, &shorted_case);
    run.explore("malformed", run.tier.pick(10_000, 60_000), 900, &malformed_case);
}
fn case(sub: &str) -> Option<Box<CaseFn<'static>>> {
    match sub {
        "import" => Some(Box::new(main_case)),
        "malformed" => Some(Box::new(malformed_case)),
        "shorted-labels" => Some(Box::new(shorted_case)),
        _ => None,
    }
}
fn render(sub: &str, choices: &[u32]) -> Option<String> {
    let mut src = Src::new(choices);
    match sub {
        "import" => Some(format!("{:?}", gen_lib(&mut src))),
        "malformed" => {
            let (g, w) = gen_malformed(&mut src);
            Some(format!("{}: {:?}", w, g.structs))
        }
        _ => None,
    }
}
