//! C10 — the GDSII reader never crashes or hangs on any input bytes.
//!
//! Fault model: every truncation point and every single-record fault of generated and repository
//! streams, plus proptest-driven byte mutations and noise. Crashes that abort the process and
//! hangs are caught by the supervisor (engine/journal.rs); panics are caught in-process.
use super::PropDef;
use crate::engine::{self, alloc, hash_of, CaseFn, Ctx, Run, Src, Tier};
use crate::gen::gds::*;
use crate::refmodel::gdsspec as S;
use gds21::GdsLibrary;
use std::sync::OnceLock;

pub fn def() -> PropDef {
    PropDef { id: "C10", level: "fault_enumeration", run, case, render }
}

pub struct Base {
    pub name: String,
    pub bytes: Vec<u8>,
    /// offset of each record, plus the offset just past ENDLIB as last entry
    pub offsets: Vec<usize>,
}
const N_GENERATED: usize = 30;
const REPO_FILES: &[&str] = &[
    "/repo/gds21/resources/sample1.gds",
    "/repo/gds21/resources/invalid_dates.gds",
    "/repo/layout21converters/resources/sky130_fd_sc_hd__dfxtp_1.gds",
];

fn bases() -> &'static Vec<Base> {
    static B: OnceLock<Vec<Base>> = OnceLock::new();
    B.get_or_init(|| {
        let mut v = vec![];
        let o = GdsGenOpts { oversize: false, large_records: false, distinct_fields: false, max_structs: 3, max_elems: 6, ..Default::default() };
        for (i, words) in engine::draw_vectors(engine::env_seed(), "c10-bases", N_GENERATED, 900).iter().enumerate() {
            let mut src = Src::new(words);
            let (m, _) = gen_lib(&mut src, &o);
            let enc = S::encode(&m, &S::EncOpts::default());
            v.push(Base { name: format!("generated#{}", i), bytes: enc.out, offsets: enc.offsets });
        }
        // one stream in which every element kind carries every optional record (a PATHTYPE 4 path with both
        // extensions, a text with presentation / path type / width / transform, transformed references, properties)
        {
            let c = MCommon { elflags: Some((0, 1)), plex: Some(7), props: vec![(1, "a".into()), (2, "bc".into())] };
            let tr = Some(crate::gen::gds::MStrans { reflected: true, abs_mag: false, abs_angle: false, mag: Some(2.0f64.to_bits()), angle: Some(90.0f64.to_bits()) });
            let d = [1i16; 12];
            let m = MLib {
                name: "all".into(),
                version: 600,
                dates: d,
                units: (1e-3f64.to_bits(), 1e-9f64.to_bits()),
                structs: vec![
                    MStruct { name: "leaf".into(), dates: d, elems: vec![MElem::Boundary { layer: 1, datatype: 2, xy: vec![(0, 0), (4, 0), (4, 4), (0, 0)], c: c.clone() }] },
                    MStruct {
                        name: "top".into(),
                        dates: d,
                        elems: vec![
                            MElem::Path { layer: 3, datatype: 4, xy: vec![(0, 0), (10, 0), (10, 10)], path_type: Some(4), width: Some(6), begin_extn: Some(3), end_extn: Some(5), c: c.clone() },
                            MElem::Text { string: "lbl".into(), layer: 5, texttype: 6, xy: (1, 2), presentation: Some((0, 5)), path_type: Some(1), width: Some(-4), strans: tr.clone(), c: c.clone() },
                            MElem::Sref { name: "leaf".into(), xy: (7, 8), strans: tr.clone(), c: c.clone() },
                            // the identity spelled out: MAG 1.0 and ANGLE 0.0 are records like any other
                            MElem::Sref { name: "leaf".into(), xy: (9, 8), strans: Some(crate::gen::gds::MStrans { reflected: false, abs_mag: false, abs_angle: false, mag: Some(1.0f64.to_bits()), angle: Some(0.0f64.to_bits()) }), c: MCommon::default() },
                            MElem::Aref { name: "leaf".into(), xy: [(0, 0), (20, 0), (0, 30)], cols: 2, rows: 3, strans: tr.clone(), c: c.clone() },
                            // an array of a single element is an array all the same
                            MElem::Aref { name: "leaf".into(), xy: [(5, 5), (15, 5), (5, 15)], cols: 1, rows: 1, strans: None, c: MCommon::default() },
                            MElem::Node { layer: 7, nodetype: 8, xy: vec![(1, 1), (2, 2)], c: c.clone() },
                            MElem::Box { layer: 9, boxtype: 10, xy: [(0, 0), (1, 0), (1, 1), (0, 1), (0, 0)], c: c.clone() },
                        ],
                    },
                ],
            };
            let enc = S::encode(&m, &S::EncOpts::default());
            v.push(Base { name: "generated-every-optional-record".to_string(), bytes: enc.out, offsets: enc.offsets });
        }
        // one stream whose records grow and shrink in size: XY lists of 520, 600, 700, 1100, 900 and 650 points and
        // strings of 4200, 5000 and 4600 bytes, in that order (a reader that re-uses a buffer has to grow it, and
        // to notice when what is there is too small)
        {
            let d = [1i16; 12];
            let c = MCommon::default();
            let mut elems = vec![];
            for (k, n) in [520usize, 600, 700, 1100, 900, 650].iter().enumerate() {
                let mut xy: Vec<(i32, i32)> = (0..*n as i32).map(|i| (i * 3, (i * 7) % 11 + k as i32)).collect();
                xy.push(xy[0]);
                elems.push(MElem::Boundary { layer: k as i16, datatype: 0, xy, c: c.clone() });
            }
            for (k, n) in [4200usize, 5000, 4600].iter().enumerate() {
                elems.push(MElem::Text { string: "s".repeat(*n), layer: 9, texttype: k as i16, xy: (0, 0), presentation: None, path_type: None, width: None, strans: None, c: c.clone() });
            }
            let m = MLib { name: "grow".into(), version: 3, dates: d, units: (1e-3f64.to_bits(), 1e-9f64.to_bits()), structs: vec![MStruct { name: "g".into(), dates: d, elems }] };
            let enc = S::encode(&m, &S::EncOpts::default());
            v.push(Base { name: "generated-large-growing-records".to_string(), bytes: enc.out, offsets: enc.offsets });
        }
        // one stream with a large (but legal) record: a boundary of 4100 points, whose XY record
        // alone is 32 KB, so that doubling it goes beyond what one record can hold
        {
            let mut lib = gds21::GdsLibrary::new("big");
            let mut st = gds21::GdsStruct::new("s");
            let mut xy: Vec<gds21::GdsPoint> = (0..4099).map(|i| gds21::GdsPoint::new(i, (i * 7) % 13)).collect();
            xy.push(xy[0].clone());
            st.elems.push(gds21::GdsElement::GdsBoundary(gds21::GdsBoundary { layer: 1, datatype: 0, xy, ..Default::default() }));
            st.elems.push(gds21::GdsElement::GdsTextElem(gds21::GdsTextElem { string: "t".into(), layer: 1, texttype: 0, xy: gds21::GdsPoint::new(1, 1), ..Default::default() }));
            // long labels made of multi-byte characters, at each of the three alignments
            for k in 0..3 {
                let s = format!("{}{}", "x".repeat(k), "中".repeat(230));
                st.elems.push(gds21::GdsElement::GdsTextElem(gds21::GdsTextElem { string: s, layer: 2, texttype: 0, xy: gds21::GdsPoint::new(2, 2), ..Default::default() }));
            }
            st.elems.push(gds21::GdsElement::GdsStructRef(gds21::GdsStructRef { name: "ж".repeat(300), xy: gds21::GdsPoint::new(0, 0), ..Default::default() }));
            lib.structs.push(st);
            let mut bytes = vec![];
            if lib.write(&mut bytes).is_ok() {
                if let Ok((recs, end)) = S::split_records(&bytes) {
                    let mut offsets: Vec<usize> = recs.iter().map(|r| r.off).collect();
                    offsets.push(end);
                    v.push(Base { name: "generated-large-record".to_string(), bytes, offsets });
                }
            }
        }
        for f in REPO_FILES {
            if let Ok(bytes) = std::fs::read(f) {
                if let Ok((recs, end)) = S::split_records(&bytes) {
                    let mut offsets: Vec<usize> = recs.iter().map(|r| r.off).collect();
                    offsets.push(end);
                    v.push(Base { name: f.to_string(), bytes, offsets });
                }
            }
        }
        v
    })
}
fn n_small() -> usize {
    bases().iter().filter(|b| b.name.starts_with("generated")).count()
}

/// The oracle for one byte string.
fn check_bytes(bytes: &[u8], must_err: bool, ctx: &mut Ctx) -> Result<(), String> {
    let r = GdsLibrary::from_bytes(bytes); // a panic is caught by the engine and reported
    match r {
        Err(_) => {
            ctx.label("outcome: error");
            Ok(())
        }
        Ok(lib) => {
            ctx.label("outcome: library");
            if must_err {
                return Err("a stream that ends before its end-of-library record was accepted".into());
            }
            let mut out = Vec::new();
            lib.write(&mut out).map_err(|e| format!("library returned by the reader cannot be written again: {:?}", e))?;
            let l2 = GdsLibrary::from_bytes(&out).map_err(|e| format!("re-written library does not read back: {:?}", e))?;
            if l2 != lib {
                return Err(format!("re-written library reads back differently; {}", first_diff(&format!("{:?}", lib), &format!("{:?}", l2))));
            }
            Ok(())
        }
    }
}

// ---- (i) every truncation point -----------------------------------------------------------------
fn trunc_table() -> &'static Vec<u64> {
    static T: OnceLock<Vec<u64>> = OnceLock::new();
    T.get_or_init(|| {
        let mut acc = 0u64;
        let mut v = vec![0u64];
        for b in bases() {
            acc += b.bytes.len() as u64; // prefixes of length 0..len-1
            v.push(acc);
        }
        v
    })
}
fn locate(table: &[u64], i: u64) -> (usize, u64) {
    let b = table.partition_point(|x| *x <= i) - 1;
    (b, i - table[b])
}
fn trunc_case(src: &mut Src, ctx: &mut Ctx) -> Result<(), String> {
    let i = src.u64();
    let (b, k) = locate(trunc_table(), i);
    let base = &bases()[b];
    let cut = k as usize;
    let end = *base.offsets.last().unwrap();
    let must_err = cut < end;
    ctx.nontrivial(hash_of(&(b, cut)));
    if i % 9973 == 0 {
        ctx.sample("truncation", || format!("{} cut at byte {} of {}", base.name, cut, base.bytes.len()));
    }
    ctx.label(if base.offsets.contains(&cut) { "truncation at a record boundary" } else { "truncation inside a record" });
    check_bytes(&base.bytes[..cut], must_err, ctx).map_err(|e| format!("{} truncated to {} bytes: {}", base.name, cut, e))
}

// ---- (ii) every single-record fault ---------------------------------------------------------------
const FAULTS_PER_RECORD: u64 = 6 + 1 + 64 + 8 + 3 + 8;
fn fault_name(k: u64) -> String {
    match k {
        0 => "length := 0".into(),
        1 => "length := 2".into(),
        2 => "length := odd".into(),
        3 => "length := len-2".into(),
        4 => "length := len+2".into(),
        5 => "length := 0xFFFF".into(),
        6 => "zero-length payload".into(),
        7..=70 => format!("record type := {:#04x}", k - 7),
        71..=78 => format!("data type := {}", k - 71),
        79 => "record deleted".into(),
        80 => "record duplicated".into(),
        81 => "record swapped with successor".into(),
        _ => format!("record replaced by a spliced one (#{})", k - 82),
    }
}
fn apply_fault(base: &Base, r: usize, k: u64) -> Vec<u8> {
    let nrec = base.offsets.len() - 1;
    let (s, e) = (base.offsets[r], base.offsets[r + 1]);
    let b = &base.bytes;
    let len = (e - s) as u16;
    let mut out = b.clone();
    let set_len = |out: &mut Vec<u8>, v: u16| out[s..s + 2].copy_from_slice(&v.to_be_bytes());
    match k {
        0 => set_len(&mut out, 0),
        1 => set_len(&mut out, 2),
        2 => set_len(&mut out, len | 1),
        3 => set_len(&mut out, len.wrapping_sub(2)),
        4 => set_len(&mut out, len.wrapping_add(2)),
        5 => set_len(&mut out, 0xFFFF),
        6 => {
            out.splice(s + 4..e, std::iter::empty());
            set_len(&mut out, 4);
        }
        7..=70 => out[s + 2] = (k - 7) as u8,
        71..=78 => out[s + 3] = (k - 71) as u8,
        79 => {
            out.splice(s..e, std::iter::empty());
        }
        80 => {
            let rec = b[s..e].to_vec();
            out.splice(e..e, rec);
        }
        81 => {
            if r + 1 < nrec {
                let e2 = base.offsets[r + 2];
                let mut sw = b[e..e2].to_vec();
                sw.extend_from_slice(&b[s..e]);
                out.splice(s..e2, sw);
            }
        }
        _ => {
            let j = (r * 7 + 3 + (k as usize - 82) * 13) % nrec;
            let rec = b[base.offsets[j]..base.offsets[j + 1]].to_vec();
            out.splice(s..e, rec);
        }
    }
    out
}
fn fault_table(stride_large: usize) -> Vec<u64> {
    let mut acc = 0u64;
    let mut v = vec![0u64];
    for b in bases() {
        let nrec = (b.offsets.len() - 1) as u64;
        let n = if b.name.starts_with("generated") { nrec } else { (nrec + stride_large as u64 - 1) / stride_large as u64 };
        acc += n * FAULTS_PER_RECORD;
        v.push(acc);
    }
    v
}
fn stride(tier: Tier) -> usize {
    match tier {
        Tier::Quick => 9,
        Tier::Thorough => 1,
    }
}
fn fault_case_with(stride_large: usize) -> impl Fn(&mut Src, &mut Ctx) -> Result<(), String> {
    let table = fault_table(stride_large);
    move |src, ctx| {
        let i = src.u64();
        let (b, k) = locate(&table, i);
        let base = &bases()[b];
        let mut r = (k / FAULTS_PER_RECORD) as usize;
        if !base.name.starts_with("generated") {
            r *= stride_large;
        }
        let kind = k % FAULTS_PER_RECORD;
        let bytes = apply_fault(base, r, kind);
        ctx.label(&format!("fault: {}", if (7..=70).contains(&kind) { "record type := *".to_string() } else if (71..=78).contains(&kind) { "data type := *".into() } else if kind >= 82 { "record spliced".into() } else { fault_name(kind) }));
        if bytes != base.bytes {
            ctx.nontrivial(hash_of(&bytes));
        }
        if i % 4999 == 0 {
            ctx.sample("single-record fault", || format!("{} record #{} at byte {}: {}", base.name, r, base.offsets[r], fault_name(kind)));
        }
        check_bytes(&bytes, false, ctx).map_err(|e| format!("{} record #{} (byte {}) {}: {}", base.name, r, base.offsets[r], fault_name(kind), e))
    }
}

// ---- (ii-b) a well-formed record of every type inserted at every record boundary -------------------
/// payload variants: (data type, payload)
fn insert_variants() -> Vec<(u8, Vec<u8>)> {
    vec![
        (0, vec![]),
        (1, vec![0x80, 0x06]),
        (2, vec![0, 1]),
        (2, vec![0, 3, 0, 2]),
        (2, [0u8, 7].iter().cycle().take(24).cloned().collect()),
        (3, vec![0, 0, 0, 5]),
        (3, vec![0, 0, 0, 5, 0xFF, 0xFF, 0xFF, 0xFB]),
        (5, vec![0x41, 0x10, 0, 0, 0, 0, 0, 0]),
        (5, vec![0x41, 0x10, 0, 0, 0, 0, 0, 0, 0x3E, 0x41, 0x89, 0x37, 0x4B, 0xC6, 0xA7, 0xEF]),
        (6, b"ab".to_vec()),
        (6, b"abc\0".to_vec()),
        // the remaining fixed sizes the specification assigns: six 16-bit words (TAPECODE), three and five
        // coordinate pairs (AREF and BOX XY), a 44-byte string (TAPENUM-era names)
        (2, [0u8, 9].iter().cycle().take(12).cloned().collect()),
        (3, [0u8, 0, 0, 9].iter().cycle().take(24).cloned().collect()),
        (3, [0u8, 0, 0, 4].iter().cycle().take(40).cloned().collect()),
        (6, b"0123456789012345678901234567890123456789abcd".to_vec()),
    ]
}
const INSERT_TYPES: u64 = 0x40;
fn insert_table() -> &'static Vec<u64> {
    static T: OnceLock<Vec<u64>> = OnceLock::new();
    T.get_or_init(|| {
        let nv = insert_variants().len() as u64;
        let mut acc = 0u64;
        let mut v = vec![0u64];
        for b in bases().iter().filter(|b| b.name.starts_with("generated")) {
            acc += b.offsets.len() as u64 * INSERT_TYPES * nv;
            v.push(acc);
        }
        v
    })
}
fn insert_case(src: &mut Src, ctx: &mut Ctx) -> Result<(), String> {
    let i = src.u64();
    let (b, k) = locate(insert_table(), i);
    let base = &bases()[b];
    let vars = insert_variants();
    let nv = vars.len() as u64;
    let at = (k / (INSERT_TYPES * nv)) as usize;
    let rtype = ((k / nv) % INSERT_TYPES) as u8;
    let (dt, payload) = &vars[(k % nv) as usize];
    let mut rec = ((payload.len() + 4) as u16).to_be_bytes().to_vec();
    rec.push(rtype);
    rec.push(*dt);
    rec.extend_from_slice(payload);
    let mut bytes = base.bytes.clone();
    let off = base.offsets[at];
    bytes.splice(off..off, rec);
    ctx.nontrivial(hash_of(&bytes));
    ctx.label(&format!("inserted data type {}", dt));
    if i % 9973 == 0 {
        ctx.sample("inserted record", || format!("{}: record type {:#04x} data type {} payload {} bytes inserted before record #{} (byte {})", base.name, rtype, dt, payload.len(), at, off));
    }
    check_bytes(&bytes, false, ctx).map_err(|e| format!("{}: well-formed record of type {:#04x} (data type {}, payload {}) inserted before record #{} at byte {}: {}", base.name, rtype, dt, hex(payload, 24), at, off, e))
}

// ---- (ii-c) floods: one well-formed record repeated 100 000 times, read on a small stack ----------
/// The thread the flooded stream is read on has the default stack of a spawned thread (2 MB): a reader
/// that uses one stack frame per record dies here long before the checking process's 64 MB workers would.
const FLOOD_COPIES: usize = 100_000;
fn flood_positions(b: &Base) -> Vec<usize> {
    // record boundaries after UNITS (library level), after the first STRNAME (structure level) and after
    // the first element header (element level), where the base has them
    let mut out = vec![];
    let ty = |r: usize| b.bytes[b.offsets[r] + 2];
    let n = b.offsets.len() - 1;
    if let Some(r) = (0..n).find(|r| ty(*r) == 0x03) {
        out.push(r + 1);
    }
    if let Some(r) = (0..n).find(|r| ty(*r) == 0x06) {
        out.push(r + 1);
    }
    if let Some(r) = (0..n).find(|r| matches!(ty(*r), 0x08 | 0x09 | 0x0A | 0x0B | 0x0C | 0x15 | 0x2D)) {
        out.push(r + 1);
    }
    out
}
fn flood_total() -> u64 {
    let nv = insert_variants().len() as u64;
    bases().iter().take(2).map(|b| flood_positions(b).len() as u64 * INSERT_TYPES * nv).sum()
}
fn flood_case(src: &mut Src, ctx: &mut Ctx) -> Result<(), String> {
    let mut i = src.u64();
    let vars = insert_variants();
    let nv = vars.len() as u64;
    let mut pick = None;
    for b in bases().iter().take(2) {
        let pos = flood_positions(b);
        let n = pos.len() as u64 * INSERT_TYPES * nv;
        if i < n {
            pick = Some((b, pos[(i / (INSERT_TYPES * nv)) as usize], ((i / nv) % INSERT_TYPES) as u8, (i % nv) as usize));
            break;
        }
        i -= n;
    }
    let (base, at, rtype, vi) = pick.ok_or("harness: flood index out of range")?;
    let (dt, payload) = &vars[vi];
    let mut rec = ((payload.len() + 4) as u16).to_be_bytes().to_vec();
    rec.push(rtype);
    rec.push(*dt);
    rec.extend_from_slice(payload);
    let off = base.offsets[at];
    let mut bytes = Vec::with_capacity(base.bytes.len() + rec.len() * FLOOD_COPIES);
    bytes.extend_from_slice(&base.bytes[..off]);
    for _ in 0..FLOOD_COPIES {
        bytes.extend_from_slice(&rec);
    }
    bytes.extend_from_slice(&base.bytes[off..]);
    ctx.nontrivial(hash_of(&(base.name.as_str(), at, rtype, vi)));
    ctx.label(&format!("flood of data type {}", dt));
    if i % 97 == 0 {
        ctx.sample("record flood", || format!("{}: {} copies of record type {:#04x} data type {} payload {} bytes before record #{}", base.name, FLOOD_COPIES, rtype, dt, payload.len(), at));
    }
    // read on a thread with the default (2 MB) stack; the verdict travels back through the join
    let res = std::thread::Builder::new()
        .spawn(move || {
            let mut c = Ctx::new(false);
            crate::engine::guard(|| check_bytes(&bytes, false, &mut c)).and_then(|r| r)
        })
        .map_err(|e| format!("harness: cannot spawn: {}", e))?
        .join()
        .map_err(|_| "reader thread panicked".to_string())?;
    res.map_err(|e| format!("{}: {} copies of a well-formed record of type {:#04x} (data type {}, payload {}) before record #{}: {}", base.name, FLOOD_COPIES, rtype, dt, hex(payload, 24), at, e))
}

// ---- (iii) byte mutations and noise ---------------------------------------------------------------
fn mutate(src: &mut Src) -> (Vec<u8>, String) {
    let nb = bases().len();
    if src.prob(1, 6) {
        // pure noise, optionally behind a plausible header
        let n = src.usize_in(0, 200);
        let mut v: Vec<u8> = if src.bool() { vec![0, 6, 0, 2, 0, 3] } else { vec![] };
        for _ in 0..n {
            v.push(src.below(256) as u8);
        }
        return (v, "noise".into());
    }
    let pool = if src.prob(1, 8) { nb } else { n_small() };
    let b = &bases()[src.index(pool)];
    let mut v = b.bytes.clone();
    let nmut = src.usize_in(1, 6);
    let mut desc = format!("{}:", b.name);
    for _ in 0..nmut {
        if v.is_empty() {
            break;
        }
        let pos = src.index(v.len());
        match src.below(7) {
            0 => {
                v[pos] ^= 1 << src.below(8);
                desc.push_str(&format!(" flip@{}", pos));
            }
            1 => {
                v[pos] = *src.pick(&[0u8, 0xFF, 0x80, 0x7F, 1, 4, 6]);
                desc.push_str(&format!(" set@{}", pos));
            }
            2 => {
                v[pos] = src.below(256) as u8;
                desc.push_str(&format!(" rand@{}", pos));
            }
            3 => {
                let n = src.usize_in(1, 8);
                let ins: Vec<u8> = (0..n).map(|_| src.below(256) as u8).collect();
                v.splice(pos..pos, ins);
                desc.push_str(&format!(" ins{}@{}", n, pos));
            }
            4 => {
                let n = src.usize_in(1, 16).min(v.len() - pos);
                v.splice(pos..pos + n, std::iter::empty());
                desc.push_str(&format!(" del{}@{}", n, pos));
            }
            5 => {
                // overwrite a record's length field with an interesting value
                let r = src.index(b.offsets.len() - 1);
                let o = b.offsets[r];
                if o + 2 <= v.len() {
                    let val = *src.pick(&[0u16, 1, 2, 3, 4, 5, 6, 8, 0x7FFF, 0x8000, 0xFFFE, 0xFFFF]);
                    v[o..o + 2].copy_from_slice(&val.to_be_bytes());
                    desc.push_str(&format!(" len[{}]={}", r, val));
                }
            }
            _ => {
                let n = src.usize_in(1, 32).min(v.len() - pos);
                let chunk = v[pos..pos + n].to_vec();
                let at = src.index(v.len());
                v.splice(at..at, chunk);
                desc.push_str(&format!(" copy{}@{}->{}", n, pos, at));
            }
        }
    }
    (v, desc)
}
fn noise_case(src: &mut Src, ctx: &mut Ctx) -> Result<(), String> {
    let (v, desc) = mutate(src);
    ctx.nontrivial(hash_of(&v));
    ctx.sample(if desc == "noise" { "noise" } else { "mutated stream" }, || format!("{} ({} bytes)", desc, v.len()));
    check_bytes(&v, false, ctx).map_err(|e| format!("{}: {}", desc, e))
}

// ---- reals: every unnormalised / extreme 8-byte pattern class through UNITS -----------------------
fn real_patterns() -> Vec<u64> {
    let mut v = vec![];
    for e in [0u64, 1, 2, 63, 64, 65, 126, 127] {
        for m in [0u64, 1, 2, 0xF, 0x10, (1 << 52) - 1, 1 << 52, (1 << 55) | 1, (1 << 56) - 1, (1 << 56) - 2, (1 << 56) - 8, 0x00FF_FFFF_FFFF_FFF8, 0x0000_0000_FFFF_FFFF, 0x000F_FFFF_FFFF_FFFF] {
            for s in [0u64, 1] {
                v.push((s << 63) | (e << 56) | m);
            }
        }
    }
    v
}
fn reals_case(src: &mut Src, ctx: &mut Ctx) -> Result<(), String> {
    let pats = real_patterns();
    let i = src.u64() as usize;
    let a = pats[i % pats.len()];
    let b = pats[(i / pats.len()) % pats.len()];
    // splice the two patterns into the UNITS record of a minimal stream
    let m = MLib { name: "L".into(), version: 3, dates: [0; 12], units: (0, 0), structs: vec![] };
    let mut bytes = S::encode(&m, &S::EncOpts::default()).out;
    let off = 6 + 28 + 6 + 4;
    bytes[off..off + 8].copy_from_slice(&a.to_be_bytes());
    bytes[off + 8..off + 16].copy_from_slice(&b.to_be_bytes());
    ctx.nontrivial(hash_of(&(a, b)));
    if i % 997 == 0 {
        ctx.sample("unnormalised / extreme reals in UNITS", || format!("UNITS bytes {:#018x} {:#018x}", a, b));
    }
    check_bytes(&bytes, false, ctx).map_err(|e| format!("UNITS = ({:#018x}, {:#018x}): {}", a, b, e))
}

// ---- allocation scaling -------------------------------------------------------------------------
fn scaling_stream(structs: usize, elems: usize) -> Vec<u8> {
    let d = [1i16; 12];
    let c = MCommon::default();
    let st: Vec<MStruct> = (0..structs)
        .map(|s| MStruct {
            name: format!("s{}", s),
            dates: d,
            elems: (0..elems)
                .map(|i| match i % 4 {
                    0 => MElem::Boundary { layer: 1, datatype: 0, xy: vec![(0, 0), (1, 0), (1, 1), (0, 1), (0, 0)], c: c.clone() },
                    1 => MElem::Text { string: "net".into(), layer: 1, texttype: 0, xy: (0, 0), presentation: None, path_type: None, width: None, strans: None, c: c.clone() },
                    2 => MElem::Sref { name: "s0".into(), xy: (5, 5), strans: None, c: c.clone() },
                    _ => MElem::Path { layer: 2, datatype: 0, xy: vec![(0, 0), (10, 0)], path_type: None, width: Some(2), begin_extn: None, end_extn: None, c: c.clone() },
                })
                .collect(),
        })
        .collect();
    let m = MLib { name: "scale".into(), version: 3, dates: d, units: (1e-3f64.to_bits(), 1e-9f64.to_bits()), structs: st };
    S::encode(&m, &S::EncOpts::default()).out
}
fn scaling_case(src: &mut Src, ctx: &mut Ctx) -> Result<(), String> {
    let i = src.u64();
    // shape 0: few structs, many elements; shape 1: many structs, few elements
    let shape = i % 2;
    let step = i / 2; // n = 500 << step
    let n = 500usize << step;
    let mk = |n: usize| if shape == 0 { scaling_stream(4, n / 4) } else { scaling_stream(n / 10, 10) };
    let (a, b) = (mk(n), mk(2 * n));
    let (ra, ba, _) = alloc::measure(|| GdsLibrary::from_bytes(&a).is_ok());
    let (rb, bb, _) = alloc::measure(|| GdsLibrary::from_bytes(&b).is_ok());
    if !ra || !rb {
        return Err("scaling stream rejected".into());
    }
    ctx.nontrivial(hash_of(&(shape, n)));
    ctx.sample("allocation scaling", || format!("shape {} : {} bytes of input -> {} bytes allocated; {} -> {}", shape, a.len(), ba, b.len(), bb));
    // doubling the input may at most double the allocation volume (plus slack for vector growth)
    if (bb as f64) > 2.6 * (ba as f64) + 65536.0 {
        return Err(format!("allocation grows faster than the input: {} input bytes -> {} allocated, {} input bytes -> {} allocated", a.len(), ba, b.len(), bb));
    }
    Ok(())
}

// ---- time scaling: CPU time for an input sixteen times as long -----------------------------------------------
fn time_stream(shape: u64, n: usize) -> Vec<u8> {
    let d = [1i16; 12];
    let c = MCommon::default();
    let bnd = |c: &MCommon| MElem::Boundary { layer: 1, datatype: 0, xy: vec![(0, 0), (1, 0), (1, 1), (0, 1), (0, 0)], c: c.clone() };
    let st: Vec<MStruct> = match shape {
        // many empty structures
        0 => (0..n).map(|s| MStruct { name: format!("cell_number_{}", s), dates: d, elems: vec![] }).collect(),
        // many structures with one element each
        1 => (0..n / 2).map(|s| MStruct { name: format!("c{}", s), dates: d, elems: vec![bnd(&c)] }).collect(),
        // one structure, many elements
        2 => vec![MStruct { name: "big".into(), dates: d, elems: (0..n / 3).map(|i| if i % 2 == 0 { bnd(&c) } else { MElem::Text { string: format!("t{}", i), layer: 1, texttype: 0, xy: (0, 0), presentation: None, path_type: None, width: None, strans: None, c: c.clone() } }).collect() }],
        // one element, many properties
        3 => {
            let mut cc = MCommon::default();
            cc.props = (0..n / 2).map(|i| ((i % 100) as i16, format!("v{}", i))).collect();
            vec![MStruct { name: "props".into(), dates: d, elems: vec![bnd(&cc)] }]
        }
        // many structures, each referring to the one before
        _ => (0..n / 3).map(|s| MStruct { name: format!("r{}", s), dates: d, elems: if s == 0 { vec![] } else { vec![MElem::Sref { name: format!("r{}", s - 1), xy: (0, 0), strans: None, c: c.clone() }] } }).collect(),
    };
    let m = MLib { name: "time".into(), version: 3, dates: d, units: (1e-3f64.to_bits(), 1e-9f64.to_bits()), structs: st };
    S::encode(&m, &S::EncOpts::default()).out
}
fn time_case(src: &mut Src, ctx: &mut Ctx) -> Result<(), String> {
    let shape = src.u64() % 5;
    let n = 6_000usize;
    let (a, b) = (time_stream(shape, n), time_stream(shape, 16 * n));
    ctx.nontrivial(hash_of(&shape));
    let what = ["many empty structures", "many one-element structures", "many elements in one structure", "many properties on one element", "a long chain of references"][shape as usize];
    let r = alloc::grows_badly(|big| GdsLibrary::from_bytes(if big { &b } else { &a }).is_ok()).map_err(|e| format!("reading time grows faster than the input ({}: {} and {} bytes): {}", what, a.len(), b.len(), e))?;
    ctx.label(&format!("time scaling, {}: x{:.0} CPU time for x16 input", what, (r.1 / r.0.max(1e-6)).round()));
    ctx.sample("time scaling", || format!("{}: {} bytes in {:.1} ms, {} bytes in {:.1} ms of CPU time", what, a.len(), r.0 * 1e3, b.len(), r.1 * 1e3));
    Ok(())
}

// ---- shared nesting: a hierarchy in which every level places the next one two or three times ----------------
/// The stream is a few kilobytes; the number of *paths* through it is astronomic. Reading is about the bytes,
/// not the paths: the call must return (the hang watchdog and the CPU limit see to it that it is noticed).
fn shared_nesting_case(src: &mut Src, ctx: &mut Ctx) -> Result<(), String> {
    let i = src.u64();
    let levels = [8usize, 16, 24, 31, 32, 33, 40, 64][(i % 8) as usize];
    let fan = 1 + (i / 8) % 3 + 1; // 2..4 references per level (the last variant: a self-reference twice over)
    let d = [1i16; 12];
    let c = MCommon::default();
    let top_first = (i / 32) % 2 == 0;
    let mut st: Vec<MStruct> = (0..levels)
        .map(|l| MStruct {
            name: format!("lvl{}", l),
            dates: d,
            elems: if l + 1 == levels { vec![MElem::Boundary { layer: 1, datatype: 0, xy: vec![(0, 0), (1, 0), (1, 1), (0, 0)], c: c.clone() }] } else { (0..fan).map(|k| MElem::Sref { name: format!("lvl{}", l + 1), xy: (k as i32 * 10, 0), strans: None, c: c.clone() }).collect() },
        })
        .collect();
    if !top_first {
        st.reverse();
    }
    let m = MLib { name: "nest".into(), version: 3, dates: d, units: (1e-3f64.to_bits(), 1e-9f64.to_bits()), structs: st };
    let bytes = S::encode(&m, &S::EncOpts::default()).out;
    ctx.nontrivial(hash_of(&(levels, fan, top_first)));
    ctx.label(&format!("{} levels, each placing the next {} times", levels, fan));
    let (r, dt) = alloc::thread_cpu(|| check_bytes(&bytes, false, ctx));
    // a few kilobytes: anything near a second of CPU time is not "proportional to the input length"
    if dt > 2.0 {
        return Err(format!("reading a {}-byte stream ({} levels, each placing the next {} times) took {:.1} s of CPU time", bytes.len(), levels, fan, dt));
    }
    r.map_err(|e| format!("{} levels x {}: {}", levels, fan, e))
}

// ---- the largest records the format allows -------------------------------------------------------------------
/// One stream per case whose one remarkable record is as long as a record can be (length field 0xFFFE, or the
/// nearest length the record's element size allows), or two bytes shorter: names, strings and property values
/// of 65530 / 65529 / 65528 bytes, point lists of 8191 / 8190 points. The reader accepts them, so the library
/// it returns must be writable and read back equal.
fn largest_case(src: &mut Src, ctx: &mut Ctx) -> Result<(), String> {
    let i = src.u64() % 18;
    let kind = i / 3;
    let len = [65530usize, 65529, 65528][(i % 3) as usize];
    let npts = [8191usize, 8190, 8189][(i % 3) as usize];
    let d = [1i16; 12];
    let c = MCommon::default();
    let long = |n: usize| "n".repeat(n);
    let xy = |n: usize| -> Vec<(i32, i32)> { (0..n as i32).map(|k| (k, k % 5)).collect() };
    let mut m = MLib { name: "lib".into(), version: 3, dates: d, units: (1e-3f64.to_bits(), 1e-9f64.to_bits()), structs: vec![MStruct { name: "s".into(), dates: d, elems: vec![] }] };
    let what = match kind {
        0 => {
            m.name = long(len);
            format!("library name of {} bytes", len)
        }
        1 => {
            m.structs[0].name = long(len);
            format!("struct name of {} bytes", len)
        }
        2 => {
            m.structs[0].elems.push(MElem::Sref { name: long(len), xy: (1, 2), strans: None, c: c.clone() });
            format!("referenced name of {} bytes", len)
        }
        3 => {
            m.structs[0].elems.push(MElem::Text { string: long(len), layer: 1, texttype: 2, xy: (3, 4), presentation: None, path_type: None, width: None, strans: None, c: c.clone() });
            format!("text string of {} bytes", len)
        }
        4 => {
            let mut cc = MCommon::default();
            cc.props.push((7, long(len)));
            m.structs[0].elems.push(MElem::Node { layer: 1, nodetype: 2, xy: vec![(0, 0)], c: cc });
            format!("property value of {} bytes", len)
        }
        _ => {
            m.structs[0].elems.push(MElem::Path { layer: 1, datatype: 2, xy: xy(npts), path_type: None, width: None, begin_extn: None, end_extn: None, c: c.clone() });
            format!("path of {} points", npts)
        }
    };
    ctx.label(&format!("largest records: {}", what));
    ctx.nontrivial(hash_of(&i));
    let enc = S::encode(&m, &S::EncOpts::default());
    check_bytes(&enc.out, false, ctx).map_err(|e| format!("stream with a {}: {}", what, e))
}
fn run(run: &mut Run) {
    engine::journal::set_hang_ms(30_000);
    run.rule("Base streams: 30 generated valid streams (all element kinds, <= ~2 KB), one stream with a 32 KB XY record, 3 repository files. (i) every truncation point of every base; (ii) every single-record fault (6 length faults, empty payload, 64 record types, 8 data types, delete/duplicate/swap, 8 splices) at every record of the generated bases and every n-th record of the repository files; (ii-b) a well-formed record of each of the 64 record types x 15 payload shapes inserted at every record boundary of the generated bases; (ii-c) floods: each of those records repeated 100 000 times at library, structure and element level of two bases, read on a 2 MB stack; (iii) proptest-driven byte mutations and noise; extreme/unnormalised reals in UNITS; allocation scaling. Non-trivial = faulted stream differs from its base; distinct by hash of the bytes.");
    run.assume("termination is observed as: the call returns before the supervisor's hang watchdog / 60 s CPU limit; 'time proportional to input' is checked as (a) allocation volume at most doubling when the input doubles and (b) thread CPU time (best of five / three) growing at most 64-fold (+50 ms) when the input grows 16-fold, a suspicious measurement being repeated up to three times, on five stream shapes of about 1 to 4 MB");
    run.assume("which error is returned is not asserted");
    run.min_nontrivial = 1000;
    run.enumerate("truncations", *trunc_table().last().unwrap(), &trunc_case);
    let st = stride(run.tier);
    let f = fault_case_with(st);
    run.enumerate("record-faults", *fault_table(st).last().unwrap(), &f);
    run.enumerate("record-insertions", *insert_table().last().unwrap(), &insert_case);
    run.enumerate("record-floods", flood_total(), &flood_case);
    let np = real_patterns().len() as u64;
    run.enumerate("reals", np * np, &reals_case);
    run.explore("mutations", run.tier.pick(400_000, 4_000_000), 64, &noise_case);
    run.enumerate("alloc-scaling", run.tier.pick(2 * 5, 2 * 7), &scaling_case);
    run.enumerate("time-scaling", 5, &time_case);
    run.enumerate("shared-nesting", 48, &shared_nesting_case);
    run.enumerate("largest-records", 18, &largest_case);
}
fn case(sub: &str) -> Option<Box<CaseFn<'static>>> {
    match sub {
        "truncations" => Some(Box::new(trunc_case)),
        "record-faults" => {
            // replay: stride from the tier recorded in the environment
            let st = if std::env::var("VERIF_TIER").ok().as_deref() == Some("thorough") { 1 } else { 9 };
            Some(Box::new(fault_case_with(st)))
        }
        "record-insertions" => Some(Box::new(insert_case)),
        "record-floods" => Some(Box::new(flood_case)),
        "reals" => Some(Box::new(reals_case)),
        "mutations" => Some(Box::new(noise_case)),
        "alloc-scaling" => Some(Box::new(scaling_case)),
        "time-scaling" => Some(Box::new(time_case)),
        "shared-nesting" => Some(Box::new(shared_nesting_case)),
        "raw-file" => Some(Box::new(|src: &mut Src, ctx: &mut Ctx| {
            let mut bytes = vec![];
            while !src.exhausted() {
                bytes.push(src.word() as u8);
            }
            check_bytes(&bytes, false, ctx)
        })),
        "largest-records" => Some(Box::new(largest_case)),
        _ => None,
    }
}
/// Seed corpus for the libFuzzer campaign of the thorough tier
pub fn dump_corpus(dir: &str) {
    let _ = std::fs::create_dir_all(dir);
    for (i, b) in bases().iter().enumerate() {
        let _ = std::fs::write(format!("{}/base{:02}.gds", dir, i), &b.bytes);
    }
}
fn render(sub: &str, choices: &[u32]) -> Option<String> {
    let mut src = Src::new(choices);
    match sub {
        "mutations" => {
            let (v, d) = mutate(&mut src);
            Some(format!("{} => {} bytes: {}", d, v.len(), hex(&v, 96)))
        }
        "truncations" => {
            let (b, k) = locate(trunc_table(), src.u64());
            Some(format!("{} truncated to {} bytes", bases()[b].name, k))
        }
        _ => None,
    }
}
pub fn hex(b: &[u8], max: usize) -> String {
    let mut s: String = b.iter().take(max).map(|x| format!("{:02x}", x)).collect();
    if b.len() > max {
        s.push('…');
    }
    s
}
