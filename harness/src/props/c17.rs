//! C17 — dependency orderings are complete, duplicate-free and dependencies-first.
use super::PropDef;
use crate::engine::{hash_of, CaseFn, Ctx, Run, Src, Tier};
use crate::gen::tetris::empty_stack;
use layout21raw as raw;
use layout21tetris as tet;
use layout21utils::{DepOrder, DepOrderer, Ptr};
use std::cell::RefCell;

pub fn def() -> PropDef {
    PropDef { id: "C17", level: "exploration", run, case, render }
}

// ---- graph model -------------------------------------------------------------------------------
/// adjacency: g[i] = nodes that i depends on
type Graph = Vec<Vec<usize>>;

fn reachable(g: &Graph, starts: &[usize]) -> Vec<bool> {
    let mut seen = vec![false; g.len()];
    let mut stack: Vec<usize> = starts.to_vec();
    while let Some(n) = stack.pop() {
        if !seen[n] {
            seen[n] = true;
            stack.extend(g[n].iter().cloned());
        }
    }
    seen
}
/// Does the subgraph induced by `within` contain a cycle (self-loops included)? Kahn's algorithm.
fn has_cycle(g: &Graph, within: &[bool]) -> bool {
    let n = g.len();
    let mut indeg = vec![0usize; n]; // number of unresolved dependencies
    let mut users: Vec<Vec<usize>> = vec![vec![]; n];
    for i in 0..n {
        if within[i] {
            for &d in &g[i] {
                indeg[i] += 1;
                users[d].push(i);
            }
        }
    }
    let mut ready: Vec<usize> = (0..n).filter(|&i| within[i] && indeg[i] == 0).collect();
    let mut done = 0;
    while let Some(x) = ready.pop() {
        done += 1;
        for &u in &users[x] {
            indeg[u] -= 1;
            if indeg[u] == 0 {
                ready.push(u);
            }
        }
    }
    done != within.iter().filter(|b| **b).count()
}
/// Validity predicate for an ordering (any topological order is accepted).
fn check_order(g: &Graph, starts: &[usize], order: &[usize]) -> Result<(), String> {
    let reach = reachable(g, starts);
    let mut pos = vec![usize::MAX; g.len()];
    for (k, &n) in order.iter().enumerate() {
        if n >= g.len() {
            return Err(format!("ordering contains unknown item {}", n));
        }
        if pos[n] != usize::MAX {
            return Err(format!("item {} listed twice (positions {} and {})", n, pos[n], k));
        }
        if !reach[n] {
            return Err(format!("item {} is not reachable from the start items but was listed", n));
        }
        pos[n] = k;
    }
    for n in 0..g.len() {
        if reach[n] && pos[n] == usize::MAX {
            return Err(format!("reachable item {} is missing from the ordering", n));
        }
    }
    for n in 0..g.len() {
        if reach[n] {
            for &d in &g[n] {
                if pos[d] > pos[n] {
                    return Err(format!("item {} is listed before its dependency {}", n, d));
                }
            }
        }
    }
    Ok(())
}
/// For orderings that are only observable through a side channel (the order of imported cells,
/// the order of the instance list after placement) the dependency order itself is not asserted:
/// a wrong internal order shows up as an error on an acyclic graph (a dependency was not ready).
fn judge_membership(g: &Graph, starts: &[usize], result: Result<Vec<usize>, String>, what: &str) -> Result<(), String> {
    let reach = reachable(g, starts);
    let cyclic = has_cycle(g, &reach);
    match (cyclic, result) {
        (true, Ok(o)) => Err(format!("{}: graph {:?} (starts {:?}) has a cycle but the call succeeded ({:?}) instead of returning an error", what, g, starts, o)),
        (true, Err(_)) => Ok(()),
        (false, Err(e)) => Err(format!("{}: acyclic graph {:?} (starts {:?}) was refused: {}", what, g, starts, e)),
        (false, Ok(o)) => {
            let mut seen = vec![0usize; g.len()];
            for &n in &o {
                if n >= g.len() {
                    return Err(format!("{}: unknown item {} in {:?}", what, n, o));
                }
                seen[n] += 1;
            }
            for n in 0..g.len() {
                if reach[n] && seen[n] != 1 {
                    return Err(format!("{}: graph {:?} starts {:?} result {:?}: reachable item {} appears {} times", what, g, starts, o, n, seen[n]));
                }
                if !reach[n] && seen[n] != 0 {
                    return Err(format!("{}: graph {:?} starts {:?} result {:?}: unreachable item {} appears", what, g, starts, o, n));
                }
            }
            Ok(())
        }
    }
}
fn judge(g: &Graph, starts: &[usize], result: Result<Vec<usize>, String>, what: &str) -> Result<(), String> {
    let reach = reachable(g, starts);
    let cyclic = has_cycle(g, &reach);
    match (cyclic, result) {
        (true, Ok(o)) => Err(format!("{}: graph {:?} (starts {:?}) has a cycle but an ordering {:?} was produced instead of an error", what, g, starts, o)),
        (true, Err(_)) => Ok(()),
        (false, Err(e)) => Err(format!("{}: acyclic graph {:?} (starts {:?}) was refused: {}", what, g, starts, e)),
        (false, Ok(o)) => check_order(g, starts, &o).map_err(|e| format!("{}: graph {:?} starts {:?} ordering {:?}: {}", what, g, starts, o, e)),
    }
}

// ---- the generic helper --------------------------------------------------------------------------
thread_local! {
    static GRAPH: RefCell<Graph> = RefCell::new(vec![]);
}
struct GOrder;
impl DepOrder for GOrder {
    type Item = usize;
    type Error = String;
    fn process(item: &usize, orderer: &mut DepOrderer<Self>) -> Result<(), String> {
        let deps: Vec<usize> = GRAPH.with(|g| g.borrow()[*item].clone());
        for d in deps {
            orderer.push(&d)?;
        }
        Ok(())
    }
    fn fail() -> Result<(), String> {
        Err("cycle".into())
    }
}
fn generic_order(g: &Graph, starts: &[usize]) -> Result<Vec<usize>, String> {
    GRAPH.with(|gg| *gg.borrow_mut() = g.clone());
    GOrder::order(starts)
}
fn classify(g: &Graph, starts: &[usize], ctx: &mut Ctx) {
    let reach = reachable(g, starts);
    let cyc = has_cycle(g, &reach);
    let shared = {
        let mut indeg = vec![0; g.len()];
        for (i, ds) in g.iter().enumerate() {
            if reach[i] {
                for &d in ds {
                    indeg[d] += 1;
                }
            }
        }
        indeg.iter().any(|c| *c >= 2)
    };
    // listing order not topological: some start item listed before one of its dependencies
    let untopo = starts.iter().enumerate().any(|(k, &s)| g[s].iter().any(|d| starts[k + 1..].contains(d) || !starts[..k].contains(d)));
    if cyc {
        ctx.label("graph with a cycle");
        ctx.nontrivial(hash_of(&(g, starts)));
    } else if shared && untopo {
        ctx.label("DAG with a shared dependency, listed out of order");
        ctx.nontrivial(hash_of(&(g, starts)));
    }
}
fn perms(n: usize) -> Vec<Vec<usize>> {
    fn rec(cur: &mut Vec<usize>, used: &mut Vec<bool>, n: usize, out: &mut Vec<Vec<usize>>) {
        if cur.len() == n {
            out.push(cur.clone());
            return;
        }
        for i in 0..n {
            if !used[i] {
                used[i] = true;
                cur.push(i);
                rec(cur, used, n, out);
                cur.pop();
                used[i] = false;
            }
        }
    }
    let mut out = vec![];
    rec(&mut vec![], &mut vec![false; n], n, &mut out);
    out
}
fn graph_from_bits(n: usize, bits: u64, self_loops: bool) -> Graph {
    let mut g = vec![vec![]; n];
    let mut k = 0;
    for i in 0..n {
        for j in 0..n {
            if i == j && !self_loops {
                continue;
            }
            if bits >> k & 1 == 1 {
                g[i].push(j);
            }
            k += 1;
        }
    }
    g
}
/// All digraphs on n nodes (with self-loops) x every ordered non-empty subset of start items
fn small_total(n: usize) -> u64 {
    1u64 << (n * n)
}
fn small_case(n: usize) -> impl Fn(&mut Src, &mut Ctx) -> Result<(), String> {
    let ps = perms(n);
    move |src, ctx| {
        let bits = src.u64();
        let g = graph_from_bits(n, bits, true);
        let mut evals = 0;
        for p in &ps {
            for mask in 1u32..(1 << n) {
                // the start list: items of the permutation selected by the mask, in permutation order
                let starts: Vec<usize> = p.iter().cloned().filter(|i| mask >> i & 1 == 1).collect();
                evals += 1;
                if mask == (1 << n) - 1 {
                    classify(&g, &starts, ctx);
                }
                judge(&g, &starts, generic_order(&g, &starts), "generic helper")?;
            }
        }
        ctx.extra_evals(evals - 1);
        if bits % 4099 == 0 {
            ctx.sample("small digraph, all listing orders and start subsets", || format!("{:?}", g));
        }
        Ok(())
    }
}
fn five_case(src: &mut Src, ctx: &mut Ctx) -> Result<(), String> {
    let bits = src.u64() & ((1 << 20) - 1);
    five_check(bits, ctx)
}
fn five_check(bits: u64, ctx: &mut Ctx) -> Result<(), String> {
    let g = graph_from_bits(5, bits, false);
    // eight listing orders derived from the graph number
    let ps = perms(5);
    ctx.extra_evals(7);
    for k in 0..8u64 {
        let p = &ps[((bits.wrapping_mul(2654435761) >> 7) as usize + 17 * k as usize) % ps.len()];
        classify(&g, p, ctx);
        judge(&g, p, generic_order(&g, p), "generic helper")?;
    }
    Ok(())
}
fn five_sampled(src: &mut Src, ctx: &mut Ctx) -> Result<(), String> {
    let bits = src.below(1 << 20);
    if src.prob(1, 50) {
        ctx.sample("five-node digraph", || format!("{:?}", graph_from_bits(5, bits, false)));
    }
    five_check(bits, ctx)
}

// ---- random larger graphs ---------------------------------------------------------------------------
/// Random graph: a DAG over a hidden rank order, optionally with back edges / self loops; nodes relabelled.
fn gen_graph(src: &mut Src, max_n: usize) -> (Graph, Vec<usize>) {
    let n = src.usize_in(1, max_n);
    let shape = src.weighted(&[3, 2, 1]);
    let mut g: Graph = vec![vec![]; n];
    // hidden relabelling
    let mut label: Vec<usize> = (0..n).collect();
    src.shuffle(&mut label);
    for r in 1..n {
        let k = match shape {
            0 => src.usize_in(0, 3.min(r)),
            1 => 1,
            _ => src.usize_in(0, 2.min(r)),
        };
        for _ in 0..k {
            let d = if shape == 1 { r - 1 } else { src.index(r) }; // shape 1: a chain of depth n
            if !g[label[r]].contains(&label[d]) {
                g[label[r]].push(label[d]);
            }
        }
    }
    if src.prob(1, 3) {
        // make it cyclic: back edges and/or a self loop
        let nb = src.usize_in(1, 2);
        for _ in 0..nb {
            let a = src.index(n);
            let b = src.usize_in(a, n - 1);
            if !g[label[a]].contains(&label[b]) {
                g[label[a]].push(label[b]);
            }
        }
    }
    let mut listing: Vec<usize> = (0..n).collect();
    src.shuffle(&mut listing);
    (g, listing)
}
fn random_generic_case(src: &mut Src, ctx: &mut Ctx) -> Result<(), String> {
    let (g, listing) = gen_graph(src, 300);
    let k = src.usize_in(1, listing.len());
    let mut starts = listing[..k].to_vec();
    relist(src, &mut starts);
    classify(&g, &starts, ctx);
    ctx.label(&format!("graph size {}", if g.len() <= 10 { "<=10" } else if g.len() <= 100 { "11-100" } else { "101-300" }));
    if g.len() <= 8 {
        ctx.sample("random graph", || format!("{:?} starts {:?}", g, starts));
    }
    judge(&g, &starts, generic_order(&g, &starts), "generic helper")
}

// ---- embedded orderers ----------------------------------------------------------------------------------
thread_local! {
    /// foundry-style names: longer than the 32 characters old GDSII tools allowed, alike in their first 40
    static LONG_NAMES: std::cell::Cell<bool> = const { std::cell::Cell::new(false) };
}
fn name_of(i: usize) -> String {
    if LONG_NAMES.with(|c| c.get()) {
        format!("sky130_fd_pr__rf_nfet_01v8_aM02W1p65L0p15_c{}", i)
    } else {
        format!("c{}", i)
    }
}
fn index_of(name: &str) -> Result<usize, String> {
    name.rfind('c').and_then(|k| name[k + 1..].parse().ok()).ok_or_else(|| format!("unexpected cell name {}", name))
}
fn gen_embedded(src: &mut Src) -> (Graph, Vec<usize>) {
    LONG_NAMES.with(|c| c.set(src.prob(1, 4)));
    let big = src.prob(1, 10);
    gen_graph(src, if big { 200 } else { 12 })
}
/// Cells that are used but not listed: one time in three, up to three nodes that something depends on
/// are taken out of the listing (never the last one); they stay reachable through their users.
fn unlist(src: &mut Src, g: &Graph, listing: &mut Vec<usize>) {
    if !src.prob(1, 3) {
        return;
    }
    for _ in 0..src.usize_in(1, 3) {
        let used: Vec<usize> = listing.iter().cloned().filter(|i| g.iter().enumerate().any(|(u, d)| u != *i && d.contains(i))).collect();
        if used.is_empty() || listing.len() < 2 {
            return;
        }
        let k = used[src.index(used.len())];
        listing.retain(|x| *x != k);
    }
}
/// An item may be named twice in a listing (the same cell pushed twice, a start set given with a repeat):
/// one time in six an entry is repeated, next to itself or at the end. It is ordered once all the same.
fn relist(src: &mut Src, listing: &mut Vec<usize>) {
    if listing.is_empty() || !src.prob(1, 6) {
        return;
    }
    let k = src.index(listing.len());
    let x = listing[k];
    if src.bool() {
        listing.insert(k, x);
    } else {
        listing.push(x);
    }
}
fn describe(g: &Graph, listing: &[usize]) -> String {
    if g.len() <= 12 {
        format!("deps {:?} listed {:?}", g, listing)
    } else {
        format!("{} nodes", g.len())
    }
}

/// raw::DepOrder::order over a raw library whose cells instantiate each other per `g`
fn raw_case(src: &mut Src, ctx: &mut Ctx) -> Result<(), String> {
    let (g, mut listing) = gen_embedded(src);
    unlist(src, &g, &mut listing);
    relist(src, &mut listing);
    classify(&g, &listing, ctx);
    ctx.sample("raw library cell graph", || describe(&g, &listing));
    // cells without instances are, one time in four, abstract-only (no layout view at all)
    let views = src.u64();
    let ptrs: Vec<Ptr<raw::Cell>> = (0..g.len())
        .map(|i| {
            if g[i].is_empty() && (views >> (2 * (i % 32))) & 3 == 3 {
                let outline = raw::Polygon { points: vec![raw::Point::new(0, 0), raw::Point::new(1, 0), raw::Point::new(1, 1), raw::Point::new(0, 1)] };
                Ptr::new(raw::Cell::from(raw::Abstract::new(name_of(i), outline)))
            } else {
                Ptr::new(raw::Cell::from(raw::Layout { name: name_of(i), ..Default::default() }))
            }
        })
        .collect();
    for (i, deps) in g.iter().enumerate() {
        if deps.is_empty() {
            continue;
        }
        let mut c = ptrs[i].write().unwrap();
        // a cell with instances may carry an abstract view beside its layout
        if (views >> (i % 29)) & 7 == 5 {
            let outline = raw::Polygon { points: vec![raw::Point::new(0, 0), raw::Point::new(1, 0), raw::Point::new(1, 1), raw::Point::new(0, 1)] };
            c.abs = Some(raw::Abstract::new(name_of(i), outline));
        }
        let lay = c.layout.as_mut().unwrap();
        for (k, d) in deps.iter().enumerate() {
            lay.insts.push(raw::Instance { inst_name: format!("i{}", k), cell: ptrs[*d].clone(), loc: raw::Point::new(0, 0), reflect_vert: false, angle: None });
            if twice(views, i, k) {
                lay.insts.push(raw::Instance { inst_name: format!("i{}b", k), cell: ptrs[*d].clone(), loc: raw::Point::new(5, 0), reflect_vert: false, angle: None });
            }
        }
    }
    let mut lib = raw::Library::new("lib", raw::Units::Nano);
    for &i in &listing {
        lib.cells.push(ptrs[i].clone());
    }
    let res = raw_order(&lib);
    judge(&g, &listing, res, "raw::DepOrder::order")?;
    // the protobuf exporter writes the cells in that order: the list it produces is the ordering as users see it
    let res = match lib.to_proto() {
        Err(e) => Err(format!("{:?}", e)),
        Ok(p) => p.cells.iter().map(|c| index_of(&c.name)).collect(),
    };
    judge(&g, &listing, res, "raw Library::to_proto cell order")
}
fn raw_order(lib: &raw::Library) -> Result<Vec<usize>, String> {
    let order = crate::props::compat::raw_dep_order(lib)?;
    order.iter().map(|p| index_of(&p.read().unwrap().name)).collect()
}

/// Does node `i` use its `k`-th child twice in a row? (cells commonly hold several instances of one cell)
fn twice(views: u64, i: usize, k: usize) -> bool {
    (views >> (32 + (i * 7 + k * 3) % 31)) & 3 == 3
}
/// GdsDepOrder through Library::from_gds: order of the imported cells
fn gds_case(src: &mut Src, ctx: &mut Ctx) -> Result<(), String> {
    let (g, listing) = gen_embedded(src);
    classify(&g, &listing, ctx);
    ctx.sample("GDSII struct reference graph", || describe(&g, &listing));
    let mut lib = gds21::GdsLibrary::new("lib");
    let views = src.u64();
    // one library in eight holds an array of 32768 or more elements (both counts within the format's range)
    let mut big_array = if (views >> 50) & 7 == 0 { Some([(256i16, 128i16), (32767, 2), (2, 32767), (256, 256)][((views >> 53) & 3) as usize]) } else { None };
    for &i in &listing {
        let mut s = gds21::GdsStruct::new(name_of(i));
        // most tools stream a cell's own geometry before its references (every other struct here does)
        if (views >> (i % 48)) & 1 == 1 {
            s.elems.push(gds21::GdsElement::GdsBoundary(gds21::GdsBoundary { layer: 1, datatype: 0, xy: vec![gds21::GdsPoint::new(0, 0), gds21::GdsPoint::new(4, 0), gds21::GdsPoint::new(4, 4), gds21::GdsPoint::new(0, 0)], ..Default::default() }));
            s.elems.push(gds21::GdsElement::GdsTextElem(gds21::GdsTextElem { string: "lbl".into(), layer: 2, texttype: 0, xy: gds21::GdsPoint::new(1, 1), ..Default::default() }));
        }
        for (k, d) in g[i].iter().enumerate() {
            if twice(views, i, k) {
                s.elems.push(gds21::GdsElement::GdsStructRef(gds21::GdsStructRef { name: name_of(*d), xy: gds21::GdsPoint::new(7, 7), ..Default::default() }));
            }
            if k % 2 == 0 {
                s.elems.push(gds21::GdsElement::GdsStructRef(gds21::GdsStructRef { name: name_of(*d), xy: gds21::GdsPoint::new(0, 0), ..Default::default() }));
            } else {
                s.elems.push(gds21::GdsElement::GdsArrayRef(gds21::GdsArrayRef {
                    name: name_of(*d),
                    // (the second and third point span all columns / rows: a pitch of 10, or of 1 for the large array)
                    xy: [gds21::GdsPoint::new(0, 0), gds21::GdsPoint::new(big_array.map(|b| b.0 as i32).unwrap_or(10), 0), gds21::GdsPoint::new(0, big_array.map(|b| b.1 as i32).unwrap_or(10))],
                    cols: big_array.map(|b| b.0).unwrap_or(1),
                    rows: big_array.take().map(|b| b.1).unwrap_or(1),
                    ..Default::default()
                }));
            }
        }
        lib.structs.push(s);
    }
    let res = match raw::Library::from_gds(&lib, None) {
        Err(e) => Err(format!("{:?}", e)),
        Ok(rl) => rl.cells.iter().map(|p| index_of(&p.read().unwrap().name)).collect(),
    };
    // the imported library lists its cells in the order they were imported: dependencies first
    judge(&g, &listing, res, "GDSII import (Library::from_gds), order of the imported cells")
}

/// `views` decides, two bits per node (mod 32), which view a cell WITHOUT instances gets: a layout,
/// an abstract only, or a raw-layout pointer only. Cells with instances always have a layout.
fn tetris_lib(g: &Graph, listing: &[usize], views: u64, awaiting: bool) -> tet::library::Library {
    use tet::{abs::Abstract, cell::Cell, cell::RawLayoutPtr, instance::Instance, layout::Layout, outline::Outline};
    let rawlib = Ptr::new(raw::Library::new("rawlib", raw::Units::Nano));
    let ptrs: Vec<Ptr<Cell>> = (0..g.len())
        .map(|i| {
            let kind = if g[i].is_empty() { (views >> (2 * (i % 32))) & 3 } else { 0 };
            Ptr::new(match kind {
                2 => Cell::from(Abstract::new(name_of(i), 0, Outline::rect(1, 1).unwrap())),
                3 => Cell::from(RawLayoutPtr { outline: Outline::rect(1, 1).unwrap(), metals: 0, lib: rawlib.clone(), cell: Ptr::new(raw::Cell::new(name_of(i))) }),
                _ => Cell::from(Layout::new(name_of(i), 0, Outline::rect(1, 1).unwrap())),
            })
        })
        .collect();
    for (i, deps) in g.iter().enumerate() {
        if deps.is_empty() {
            continue;
        }
        let mut c = ptrs[i].write().unwrap();
        if (views >> (i % 29)) & 7 == 5 {
            c.abs = Some(Abstract::new(name_of(i), 0, Outline::rect(1, 1).unwrap()));
        }
        let lay = c.layout.as_mut().unwrap();
        // one cell in four (where the caller allows it) holds its content as objects awaiting placement:
        // instances, or one-element arrays of the cell, in `places` and nothing in `instances`
        if awaiting && (views >> (i % 23)) & 3 == 1 {
            use tet::placement::Placeable;
            for (k, d) in deps.iter().enumerate() {
                if (k + i) % 2 == 0 {
                    lay.places.push(Placeable::Instance(Ptr::new(Instance { inst_name: format!("p{}", k), cell: ptrs[*d].clone(), loc: (k as isize, 0isize).into(), reflect_horiz: false, reflect_vert: false })));
                } else {
                    let inner = Ptr::new(tet::array::Array { name: format!("a{}", k), unit: tet::array::Arrayable::Instance(ptrs[*d].clone()), count: 1 + k % 2, sep: tet::placement::Separation::default() });
                    // nested one to four deep; one definition may serve two array instances
                    let mut arr = inner;
                    for lvl in 0..[0usize, 1, 2, 3][((k + i) / 2) % 4] {
                        arr = Ptr::new(tet::array::Array { name: format!("aa{}_{}", k, lvl), unit: tet::array::Arrayable::Array(arr), count: 1, sep: tet::placement::Separation::default() });
                    }
                    lay.places.push(Placeable::Array(Ptr::new(tet::array::ArrayInstance { name: format!("ai{}", k), array: arr.clone(), loc: (k as isize, 2isize).into(), reflect_vert: false, reflect_horiz: false })));
                    if (k + 2 * i) % 3 == 0 {
                        lay.places.push(Placeable::Array(Ptr::new(tet::array::ArrayInstance { name: format!("ai{}b", k), array: arr, loc: (k as isize, 9isize).into(), reflect_vert: false, reflect_horiz: false })));
                    }
                }
            }
            continue;
        }
        for (k, d) in deps.iter().enumerate() {
            // (instance names in bus notation now and then: `u[1]`, `bit[7]`)
            let iname = match (k + i) % 5 { 3 => format!("u[{}]", k + 1), 4 => format!("bit{}[7]", k), _ => format!("i{}", k) };
            lay.instances.add(Instance { inst_name: iname, cell: ptrs[*d].clone(), loc: (k as isize, 0isize).into(), reflect_horiz: false, reflect_vert: false });
            if twice(views, i, k) {
                lay.instances.add(Instance { inst_name: format!("i{}b", k), cell: ptrs[*d].clone(), loc: (k as isize, 1isize).into(), reflect_horiz: false, reflect_vert: false });
            }
        }
    }
    let mut lib = tet::library::Library::new("lib");
    for &i in listing {
        lib.cells.push(ptrs[i].clone());
    }
    lib
}
fn tetris_case(src: &mut Src, ctx: &mut Ctx) -> Result<(), String> {
    let (g, mut listing) = gen_embedded(src);
    unlist(src, &g, &mut listing);
    relist(src, &mut listing);
    classify(&g, &listing, ctx);
    ctx.sample("gridded-layout library cell graph", || describe(&g, &listing));
    let views = src.u64();
    if (0..g.len()).any(|i| g[i].is_empty() && (views >> (2 * (i % 32))) & 3 >= 2 && g.iter().filter(|d| d.contains(&i)).count() >= 2) {
        ctx.label("shared cell without a layout view (abstract-only / raw-only)");
    }
    let lib = tetris_lib(&g, &listing, views, true);
    let res = crate::props::compat::tetris_dep_order(&lib).and_then(|o| o.iter().map(|p| index_of(&p.read().unwrap().name)).collect());
    judge(&g, &listing, res, "tetris Library::dep_order")?;
    // a second question to the same library after its instance graph has changed (one more instance,
    // same cells): the answer must be about the library as it is now
    {
        // every cell reachable from the listing, by name (each cell visited once)
            let mut by_name: std::collections::BTreeMap<String, Ptr<tet::cell::Cell>> = std::collections::BTreeMap::new();
        let mut stack: Vec<Ptr<tet::cell::Cell>> = lib.cells.iter().cloned().collect();
        while let Some(p) = stack.pop() {
            let (name, kids): (String, Vec<Ptr<tet::cell::Cell>>) = match p.read() {
                Ok(c) => (c.name.clone(), c.layout.as_ref().map(|l| l.instances.iter().filter_map(|ip| ip.read().ok().map(|i| i.cell.clone())).collect()).unwrap_or_default()),
                Err(_) => continue,
            };
            if by_name.insert(name, p.clone()).is_none() {
                stack.extend(kids);
            }
        }
        let with_layout: Vec<usize> = (0..g.len()).filter(|i| by_name.get(&name_of(*i)).map(|p| p.read().map(|c| c.layout.is_some()).unwrap_or(false)).unwrap_or(false)).collect();
        if let Some(&a) = with_layout.first() {
            let b = (a + 1 + (views as usize % g.len().max(1))) % g.len();
            let find = |i: usize| -> Option<Ptr<tet::cell::Cell>> { by_name.get(&name_of(i)).cloned() };
            if b != a {
                if let (Some(pa), Some(pb)) = (find(a), find(b)) {
                    if let Ok(mut ca) = pa.write() {
                        if let Some(l) = ca.layout.as_mut() {
                            l.instances.add(tet::instance::Instance { inst_name: "late".into(), cell: pb.clone(), loc: (9isize, 9isize).into(), reflect_horiz: false, reflect_vert: false });
                        }
                    }
                    let mut g2 = g.clone();
                    if !g2[a].contains(&b) {
                        g2[a].push(b);
                    }
                    let res2 = crate::props::compat::tetris_dep_order(&lib).and_then(|o| o.iter().map(|p| index_of(&p.read().unwrap().name)).collect());
                    judge(&g2, &listing, res2, "tetris Library::dep_order, asked again after one more instance was added")?;
                }
            }
        }
    }
    // the placer walks the cells in that same order: on a cyclic cell graph it must report the error too
    // (all instances here have absolute locations, so nothing else can go wrong)
    let reach = reachable(&g, &listing);
    let cyclic = has_cycle(&g, &reach);
    let placed = tet::placer::Placer::place(tetris_lib(&g, &listing, views, true), empty_stack());
    match (cyclic, placed) {
        (true, Ok(_)) => Err(format!("Placer::place: the cell graph {:?} (listing {:?}) has a cycle but placement succeeded instead of reporting an error", g, listing)),
        (false, Err(e)) => Err(format!("Placer::place: acyclic cell graph {:?} (listing {:?}) was refused: {:?}", g, listing, e)),
        _ => Ok(()),
    }
}
fn tetris_proto_case(src: &mut Src, ctx: &mut Ctx) -> Result<(), String> {
    let (g, mut listing) = gen_embedded(src);
    unlist(src, &g, &mut listing);
    relist(src, &mut listing);
    classify(&g, &listing, ctx);
    let views = src.u64();
    let lib = tetris_lib(&g, &listing, views, false);
    let res = match tet::conv::proto::ProtoExporter::export(&lib) {
        Err(e) => Err(format!("{:?}", e)),
        Ok(p) => p.cells.iter().map(|c| index_of(&c.name)).collect(),
    };
    judge(&g, &listing, res, "tetris ProtoExporter cell order")
}
/// PlaceOrder through Placer::place: every node is an instance placed relative to at most one
/// other instance (out-degree <= 1), so the graph is a functional graph: forests and rho-shapes.
fn gen_place_graph(src: &mut Src) -> (Graph, Vec<usize>) {
    let big = src.prob(1, 10);
    let n = src.usize_in(1, if big { 200 } else { 10 });
    let mut label: Vec<usize> = (0..n).collect();
    src.shuffle(&mut label);
    let mut g: Graph = vec![vec![]; n];
    for r in 1..n {
        if !src.prob(1, 6) {
            let d = if src.bool() { r - 1 } else { src.index(r) };
            g[label[r]].push(label[d]);
        }
    }
    if src.prob(1, 3) {
        // a root gets placed relative to a descendant or itself: a cycle
        let a = src.index(n);
        if g[label[a]].is_empty() {
            let b = src.usize_in(a, n - 1);
            g[label[a]].push(label[b]);
        }
    }
    let mut listing: Vec<usize> = (0..n).collect();
    src.shuffle(&mut listing);
    // an absolutely placed instance that others are placed against need not be listed itself: it is
    // reached through the relation and must still come out placed
    if src.prob(1, 3) {
        let drop: Vec<usize> = (0..n).filter(|i| g[*i].is_empty() && g.iter().any(|d| d.contains(i))).collect();
        if !drop.is_empty() {
            let k = drop[src.index(drop.len())];
            if listing.len() > 1 {
                listing.retain(|x| *x != k);
            }
        }
    }
    (g, listing)
}
fn place_case(src: &mut Src, ctx: &mut Ctx) -> Result<(), String> {
    use tet::{cell::Cell, instance::Instance, layout::Layout, outline::Outline, placement::*};
    let (g, listing) = gen_place_graph(src);
    classify(&g, &listing, ctx);
    ctx.sample("relative-placement graph", || describe(&g, &listing));
    let mut lib = tet::library::Library::new("lib");
    let unit = lib.cells.add(Cell::from(Layout::new("unit", 0, Outline::rect(2, 3).unwrap())));
    let insts: Vec<Ptr<Instance>> = (0..g.len())
        .map(|i| Ptr::new(Instance { inst_name: name_of(i), cell: unit.clone(), loc: (i as isize * 10, 0isize).into(), reflect_horiz: false, reflect_vert: false }))
        .collect();
    for (i, deps) in g.iter().enumerate() {
        if let Some(&d) = deps.first() {
            insts[i].write().unwrap().loc = Place::Rel(RelativePlace { to: Placeable::Instance(insts[d].clone()), side: Side::Right, align: Align::Side(Side::Bottom), sep: Separation::default() });
        }
    }
    let mut top = Layout::new("top", 0, Outline::rect(1000, 1000).unwrap());
    for &i in &listing {
        top.instances.push(insts[i].clone());
    }
    lib.cells.add(Cell::from(top));
    let res = match tet::placer::Placer::place(lib, empty_stack()) {
        Err(e) => Err(format!("{:?}", e)),
        Ok((lib, _)) => {
            let cell = lib.cells.iter().find(|c| c.read().unwrap().name == "top").unwrap().clone();
            let cell = cell.read().unwrap();
            cell.layout.as_ref().unwrap().instances.iter().map(|p| index_of(&p.read().unwrap().inst_name)).collect()
        }
    };
    judge_membership(&g, &listing, res, "placement (Placer::place)")
}

fn run(run: &mut Run) {
    run.rule("Generic helper: every digraph on 1-4 nodes incl. self-loops x every listing order x every non-empty start subset (exhaustive); every digraph on 5 nodes without self-loops x 8 listing orders (exhaustive in thorough, sampled in quick); random graphs up to 300 nodes incl. depth-300 chains. Embedded orderers through their public callers (raw::DepOrder::order, Library::from_gds, tetris Library::dep_order, tetris ProtoExporter::export, Placer::place) on random DAGs and cyclic graphs up to 200 nodes. Oracle: graph model (reachability, Kahn cycle test, validity predicate for topological orders). Non-trivial = cyclic graph, or DAG with a shared dependency listed out of dependency order; distinct by hash of (graph, listing).");
    run.assume("any topological order is accepted; unbounded recursion is observed as the death of the checking process (supervisor), a missing error as an Ok result");
    run.min_nontrivial = 500;
    for n in 1..=3 {
        run.enumerate(&format!("generic-n{}", n), small_total(n), &small_case(n));
    }
    run.enumerate("generic-n4", small_total(4), &small_case(4));
    match run.tier {
        Tier::Thorough => run.enumerate("generic-n5", 1 << 20, &five_case),
        Tier::Quick => run.explore("generic-n5-sampled", 100_000, 4, &five_sampled),
    }
    run.explore("generic-random", run.tier.pick(60_000, 500_000), 1500, &random_generic_case);
    let (nq, nt) = (40_000, 300_000);
    run.explore("raw-cells", run.tier.pick(nq, nt), 900, &raw_case);
    run.explore("gds-structs", run.tier.pick(nq, nt), 900, &gds_case);
    run.explore("tetris-cells", run.tier.pick(nq, nt), 900, &tetris_case);
    run.explore("tetris-proto-export", run.tier.pick(nq, nt), 900, &tetris_proto_case);
    run.explore("placement", run.tier.pick(nq, nt), 700, &place_case);
}
fn case(sub: &str) -> Option<Box<CaseFn<'static>>> {
    match sub {
        "generic-n1" => Some(Box::new(small_case(1))),
        "generic-n2" => Some(Box::new(small_case(2))),
        "generic-n3" => Some(Box::new(small_case(3))),
        "generic-n4" => Some(Box::new(small_case(4))),
        "generic-n5" => Some(Box::new(five_case)),
        "generic-n5-sampled" => Some(Box::new(five_sampled)),
        "generic-random" => Some(Box::new(random_generic_case)),
        "raw-cells" => Some(Box::new(raw_case)),
        "gds-structs" => Some(Box::new(gds_case)),
        "tetris-cells" => Some(Box::new(tetris_case)),
        "tetris-proto-export" => Some(Box::new(tetris_proto_case)),
        "placement" => Some(Box::new(place_case)),
        _ => None,
    }
}
fn render(sub: &str, choices: &[u32]) -> Option<String> {
    let mut src = Src::new(choices);
    match sub {
        "raw-cells" | "gds-structs" | "tetris-cells" | "tetris-proto-export" => {
            let (g, l) = gen_embedded(&mut src);
            Some(format!("deps {:?} listing {:?}", g, l))
        }
        "placement" => {
            let (g, l) = gen_place_graph(&mut src);
            Some(format!("placed-relative-to {:?} listing {:?}", g, l))
        }
        "generic-random" => {
            let (g, l) = gen_graph(&mut src, 300);
            Some(format!("deps {:?} listing {:?}", g, l))
        }
        _ => None,
    }
}
