//! C16 — importing LEF into the raw model keeps every coordinate in place.
use super::PropDef;
use crate::engine::{hash_of, CaseFn, Ctx, Run, Src};
use crate::gen::lef::{gen_name, render, RenderOpts};
use crate::props::c04::open_text;
use layout21raw as raw;
use lef21::*;
use std::collections::BTreeMap;

pub fn def() -> PropDef {
    PropDef { id: "C16", level: "exploration", run, case, render: render_case }
}
thread_local! {
    /// raw units per micron of the library under comparison (the importer documents angstroms: 10000)
    static RAW_PER_MICRON: std::cell::Cell<i128> = const { std::cell::Cell::new(10_000) };
}
/// Decimal-scaling model: value * (raw units per micron) on (mantissa, scale) integers. None = not a whole number.
fn scale_exact(d: &LefDecimal) -> Option<i64> {
    let m = d.mantissa();
    let s = d.scale();
    let num = m * RAW_PER_MICRON.with(|r| r.get());
    let den = 10i128.pow(s);
    if num % den != 0 {
        return None;
    }
    i64::try_from(num / den).ok()
}
/// coordinate with 0..=4 significant decimals, written with 0..=6 decimals (trailing zeros)
fn gen_coord(src: &mut Src, fine: &mut bool) -> LefDecimal {
    let sig = src.weighted(&[2, 2, 3, 2, 2]) as u32; // significant decimals
    let extra = src.weighted(&[4, 2, 1]) as u32; // trailing zeros
    let scale = (sig + extra).min(6);
    let mut m = src.signed(400_000);
    if sig > 0 && m % 10 == 0 {
        m += 1; // make the last significant decimal non-zero
    }
    let mut m = m * 10i64.pow(scale - sig.min(scale));
    if ALLOW_FINE.with(|a| a.get()) && !*fine && src.prob(1, 12) {
        // not a whole number of raw units: a non-zero digit beyond the fourth decimal
        *fine = true;
        let k = src.i64_in(1, 9) * if src.bool() { 1 } else { 10 };
        let neg = src.bool();
        m = src.signed(300) * 1_000_000 + if neg { -k } else { k };
        return LefDecimal::new(m, 6);
    }
    if scale == 0 {
        m = src.signed(4000);
    }
    LefDecimal::new(m, scale)
}
fn gen_pt(src: &mut Src, fine: &mut bool) -> LefPoint {
    // both coordinates off the grid, by amounts that cancel (each one alone must be reported)
    if ALLOW_FINE.with(|a| a.get()) && src.prob(1, 40) {
        *fine = true;
        let k = src.i64_in(1, 99);
        let (a, b) = (src.signed(300), src.signed(300));
        let (sx, sy) = if src.bool() { (k, -k) } else { (-k, k) };
        return LefPoint::new(LefDecimal::new(a * 1_000_000 + sx, 6), LefDecimal::new(b * 1_000_000 + sy, 6));
    }
    let x = gen_coord(src, fine);
    // x and y distinct (a swap is then visible), except one point in ten, which lies on the diagonal
    if src.prob(1, 10) {
        return LefPoint::new(x, x);
    }
    let mut y = gen_coord(src, fine);
    if x == y {
        y = y + LefDecimal::new(1, 0);
    }
    LefPoint::new(x, y)
}
thread_local! {
    /// the non-integral class is drawn for one library in eight
    static ALLOW_FINE: std::cell::Cell<bool> = const { std::cell::Cell::new(false) };
    static ALLOW_UNSUPPORTED: std::cell::Cell<bool> = const { std::cell::Cell::new(false) };
}
const LAYERS: &[&str] = &["met1", "met2", "via1", "poly", "nwell", "M3.pin", "li1", "MET1", "Met2", "VIA1"];
#[derive(Clone, Debug, Default)]
pub struct Flags {
    fine: bool,        // a coordinate that is not a whole number of raw units
    unsupported: bool, // EXCEPTPGNET / non-zero SPACING / DESIGNRULEWIDTH / ITERATE / case-insensitive names
}
fn gen_layer_block(src: &mut Src, f: &mut Flags) -> LefLayerGeometries {
    let ng = src.usize_in(0, 3);
    let mut needs_width = false;
    let mut geometries = vec![];
    for _ in 0..ng {
        let shape = match src.below(3) {
            0 => {
                // a rectangle may have no extent along one axis, or none at all (it is a shape all the same)
                let p0 = gen_pt(src, &mut f.fine);
                let mut p1_fine = false;
                let mut p1 = gen_pt(src, &mut p1_fine);
                let mode = src.weighted(&[8, 1, 1, 1]);
                if !p1_fine {
                    match mode {
                        1 => p1.x = p0.x,
                        2 => p1.y = p0.y,
                        3 => p1 = p0.clone(),
                        _ => {}
                    }
                }
                f.fine |= p1_fine;
                LefShape::Rect(None, p0, p1)
            }
            1 if src.prob(1, 4) => {
                // small whole coordinates: a box or a triangle written from any corner, in either direction
                // (one coordinate is then often twice, or minus, another)
                let c = |src: &mut Src| LefDecimal::new(src.signed(4), 0);
                let (x0, y0, x1, y1) = (c(src), c(src), c(src), c(src));
                let mut v = vec![LefPoint::new(x0, y0), LefPoint::new(x1, y0), LefPoint::new(x1, y1), LefPoint::new(x0, y1)];
                if src.prob(1, 3) {
                    v.remove(src.index(4));
                }
                let r = src.index(v.len());
                v.rotate_left(r);
                if src.bool() {
                    v.reverse();
                }
                LefShape::Polygon(None, v)
            }
            1 => {
                let n = if src.prob(1, 10) { src.usize_in(7, 20) } else { src.usize_in(3, 6) };
                LefShape::Polygon(if src.prob(1, 6) { Some(LefMask::new(LefDecimal::new(2, 0))) } else { None }, (0..n).map(|_| gen_pt(src, &mut f.fine)).collect())
            }
            _ => {
                needs_width = true;
                // a path may consist of a single point (a width-sized dot)
                let n = if src.prob(1, 10) { src.usize_in(7, 20) } else { src.usize_in(1, 5) };
                // (a mask number colours a path as it does a rectangle or a polygon; it is not imported)
                LefShape::Path(if src.prob(1, 6) { Some(LefMask::new(LefDecimal::new(1, 0))) } else { None }, (0..n).map(|_| gen_pt(src, &mut f.fine)).collect())
            }
        };
        if ALLOW_UNSUPPORTED.with(|a| a.get()) && src.prob(1, 10) {
            f.unsupported = true;
            geometries.push(LefGeometry::Iterate { shape, pattern: LefStepPattern { numx: LefDecimal::new(2, 0), numy: LefDecimal::new(3, 0), spacex: LefDecimal::new(1, 0), spacey: LefDecimal::new(2, 0) } });
        } else {
            geometries.push(LefGeometry::Shape(shape));
        }
    }
    let width = if needs_width || src.prob(1, 4) {
        let mut fine = false;
        let w = gen_coord(src, &mut fine).abs();
        f.fine |= fine && needs_width;
        if fine && !needs_width {
            Some(LefDecimal::new(14, 2))
        } else {
            Some(w)
        }
    } else {
        None
    };
    let unsup = ALLOW_UNSUPPORTED.with(|a| a.get());
    let (except_pg_net, spacing) = match src.weighted(&[30, unsup as u32 * 3, unsup as u32 * 3, unsup as u32 * 3, 4]) {
        0 => (None, None),
        1 => {
            f.unsupported = true;
            (Some(true), None)
        }
        2 => {
            f.unsupported = true;
            (None, Some(LefLayerSpacing::Spacing(LefDecimal::new(5, 1))))
        }
        3 => {
            f.unsupported = true;
            (None, Some(LefLayerSpacing::DesignRuleWidth(LefDecimal::new(1, 1))))
        }
        _ => (None, Some(LefLayerSpacing::Spacing(LefDecimal::new(0, src.below(3) as u32)))), // zero spacing is supported
    };
    let nv = src.weighted(&[6, 1]);
    LefLayerGeometries {
        layer_name: if src.prob(1, 6) { gen_name(src) } else { src.pick(LAYERS).to_string() },
        geometries,
        vias: (0..nv).map(|_| LefVia { via_name: "v1".into(), pt: LefPoint::new(LefDecimal::new(1, 0), LefDecimal::new(2, 0)) }).collect(),
        except_pg_net,
        spacing,
        width,
    }
}
pub fn gen_lib(src: &mut Src) -> (LefLibrary, Flags) {
    let mut f = Flags::default();
    let allow = src.prob(1, 8);
    ALLOW_FINE.with(|a| a.set(allow));
    let allow_u = src.prob(1, 8);
    ALLOW_UNSUPPORTED.with(|a| a.set(allow_u));
    let nm = src.usize_in(1, 5);
    let mut lib = LefLibrary::new();
    // a library may state its manufacturing grid; it says nothing about how coordinates are imported
    if src.prob(1, 3) {
        lib.manufacturing_grid = Some(*src.pick(&[LefDecimal::new(5, 3), LefDecimal::new(1, 3), LefDecimal::new(1, 4), LefDecimal::new(1, 2), LefDecimal::new(25, 4)]));
    }
    for mi in 0..nm {
        let mut m = LefMacro::new(format!("{}{}", gen_name(src), mi));
        let mut fine = false;
        m.size = Some((gen_coord(src, &mut fine).abs(), gen_coord(src, &mut fine).abs()));
        f.fine |= fine;
        if m.size.as_ref().unwrap().0 == m.size.as_ref().unwrap().1 {
            m.size.as_mut().unwrap().1 += LefDecimal::new(1, 0);
        }
        let np = src.usize_in(0, 6);
        for pi in 0..np {
            let nports = src.usize_in(1, 3);
            let mut pin = LefPin { name: format!("{}{}", gen_name(src), pi), ..Default::default() };
            for _ in 0..nports {
                let nl = src.usize_in(0, 3);
                pin.ports.push(LefPort { class: None, layers: (0..nl).map(|_| gen_layer_block(src, &mut f)).collect() });
            }
            m.pins.push(pin);
        }
        let no = src.usize_in(0, 4);
        m.obs = (0..no).map(|_| gen_layer_block(src, &mut f)).collect();
        // a later block may name the layer of an earlier one again and repeat one of its shapes: every LEF
        // statement still makes one shape
        if !m.obs.is_empty() && src.prob(1, 5) {
            let mut again = m.obs[0].clone();
            again.geometries.truncate(1);
            m.obs.push(again);
        }
        // ORIGIN, zero or not: the statement ties the outline to SIZE and every coordinate to its LEF value
        m.origin = match src.weighted(&[2, 1, 1]) {
            0 => None,
            1 => Some(LefPoint::new(LefDecimal::new(0, 0), LefDecimal::new(0, 0))),
            _ => Some(LefPoint::new(LefDecimal::new(src.signed(5000), 2), LefDecimal::new(src.signed(5000), 3))),
        };
        lib.macros.push(m);
    }
    // a LEF file may define one macro name twice: still one abstract cell per macro
    if lib.macros.len() >= 2 && src.prob(1, 8) {
        let n = lib.macros[0].name.clone();
        let k = lib.macros.len() - 1;
        lib.macros[k].name = n;
    }
    if allow_u && src.prob(1, 4) {
        lib.version = Some(LefDecimal::new(54, 1));
        lib.names_case_sensitive = Some(LefOnOff::Off);
        f.unsupported = true;
    }
    if src.bool() {
        lib.units = Some(LefUnits { database_microns: Some(LefDbuPerMicron(*src.pick(&[100u32, 200, 400, 800, 1000, 2000, 4000, 8000, 10000, 20000]))), ..Default::default() });
    }
    (lib, f)
}

type P = (i64, i64);
#[derive(Clone, Debug, PartialEq, Eq, PartialOrd, Ord)]
enum XShape {
    Rect(P, P),
    Poly(Vec<P>),
    Path(Vec<P>, i64),
}
fn xpt(p: &LefPoint) -> Option<P> {
    Some((scale_exact(&p.x)?, scale_exact(&p.y)?))
}
/// Expected shapes per layer name for a list of layer blocks, in traversal order; None = some
/// coordinate is not a whole number of raw units.
fn expect_blocks<'a>(blocks: impl Iterator<Item = &'a LefLayerGeometries>) -> Option<BTreeMap<String, Vec<XShape>>> {
    let mut out: BTreeMap<String, Vec<XShape>> = BTreeMap::new();
    for b in blocks {
        let e = out.entry(b.layer_name.clone()).or_default();
        for g in &b.geometries {
            let s = match g {
                LefGeometry::Shape(s) => s,
                LefGeometry::Iterate { shape, .. } => shape,
            };
            e.push(match s {
                LefShape::Rect(_, a, b) => XShape::Rect(xpt(a)?, xpt(b)?),
                LefShape::Polygon(_, pts) => XShape::Poly(pts.iter().map(xpt).collect::<Option<Vec<_>>>()?),
                LefShape::Path(_, pts) => XShape::Path(pts.iter().map(xpt).collect::<Option<Vec<_>>>()?, scale_exact(b.width.as_ref()?)?),
            });
        }
    }
    Some(out)
}
fn got_shapes(layers: &raw::Layers, m: &std::collections::HashMap<raw::LayerKey, Vec<raw::Shape>>) -> Result<BTreeMap<String, Vec<XShape>>, String> {
    let mut out = BTreeMap::new();
    for (k, shapes) in m {
        let name = layers.get_name(*k).ok_or("imported shapes on a layer without a name")?.clone();
        let tp = |p: &raw::Point| (p.x as i64, p.y as i64);
        let v: Vec<XShape> = shapes
            .iter()
            .map(|s| match s {
                raw::Shape::Rect(r) => XShape::Rect(tp(&r.p0), tp(&r.p1)),
                raw::Shape::Polygon(p) => XShape::Poly(p.points.iter().map(tp).collect()),
                raw::Shape::Path(p) => XShape::Path(p.points.iter().map(tp).collect(), p.width as i64),
            })
            .collect();
        if out.insert(name.clone(), v).is_some() {
            return Err(format!("two layer keys share the name {}", name));
        }
    }
    Ok(out)
}
fn strip_empty(m: BTreeMap<String, Vec<XShape>>) -> BTreeMap<String, Vec<XShape>> {
    m.into_iter().filter(|(_, v)| !v.is_empty()).collect()
}

fn oracle(lib: &LefLibrary, f: &Flags, ctx: &mut Ctx) -> Result<(), String> {
    match lib.units.as_ref().and_then(|u| u.database_microns.as_ref()) {
        None => ctx.label("no DATABASE MICRONS"),
        Some(d) => ctx.label(&format!("DATABASE MICRONS {}", d.0)),
    }
    {
        let geoms = || lib.macros.iter().flat_map(|m| m.pins.iter().flat_map(|p| p.ports.iter().flat_map(|q| q.layers.iter())).chain(m.obs.iter())).flat_map(|l| l.geometries.iter());
        let mut kinds = [false; 4];
        for g in geoms() {
            if let LefGeometry::Shape(s) = g {
                match s {
                    LefShape::Rect(..) => kinds[0] = true,
                    LefShape::Polygon(_, pts) => {
                        kinds[1] = true;
                        if pts.len() > 2 && pts.first() == pts.last() {
                            kinds[3] = true;
                        }
                    }
                    LefShape::Path(_, pts) => {
                        kinds[2] = true;
                        if pts.len() > 2 && pts.first() == pts.last() {
                            kinds[3] = true;
                        }
                    }
                }
            }
        }
        for (k, name) in ["has a RECT", "has a POLYGON", "has a PATH", "point list ending on its first point"].iter().enumerate() {
            if kinds[k] {
                ctx.label(name);
            }
        }
        let names: Vec<&String> = lib.macros.iter().flat_map(|m| m.pins.iter().flat_map(|p| p.ports.iter().flat_map(|q| q.layers.iter())).chain(m.obs.iter())).map(|l| &l.layer_name).collect();
        if names.iter().any(|a| names.iter().any(|b| a != b && a.eq_ignore_ascii_case(b))) {
            ctx.label("layer names differing only in letter case");
        }
    }
    // the caller may hand over a layer set of its own (shared between imports): one time in three it already
    // holds some of the LEF's layer names, under numbers of the caller's choosing
    // (which, is derived from the library's content)
    let mut h = hash_of(&format!("{:?}", lib));
    let mut bit = move || {
        h = h.rotate_left(7).wrapping_mul(0x9E37_79B9_7F4A_7C15);
        h & 1 == 1
    };
    let provided: Option<raw::utils::Ptr<raw::Layers>> = if bit() && bit() {
        let mut ls = raw::Layers::default();
        let mut names: Vec<String> = lib.macros.iter().flat_map(|m| m.pins.iter().flat_map(|p| p.ports.iter().flat_map(|q| q.layers.iter())).chain(m.obs.iter())).map(|l| l.layer_name.clone()).collect();
        names.sort();
        names.dedup();
        for (k, n) in names.iter().enumerate() {
            if bit() {
                ls.add(raw::Layer::new(700 + k as i16, n.clone()));
            }
        }
        if bit() {
            ls.add(raw::Layer::new(900, "boundary"));
        }
        ctx.label("import into a layer set provided by the caller");
        Some(raw::utils::Ptr::new(ls))
    } else {
        None
    };
    let res = raw::lef::LefImporter::import(lib, provided);
    let rl = match res {
        Err(e) => {
            let msg = format!("{:?}", e);
            if f.fine {
                ctx.label("non-integral coordinate: error reported");
                ctx.nontrivial(hash_of(&format!("{:?}", lib)));
                // asked again, the importer gives the same answer (an error is not forgotten by the next call)
                if let Ok(_) = raw::lef::LefImporter::import(lib, None) {
                    return Err(format!("import of a library with a coordinate that is not a whole number of raw units failed ({}), then succeeded when called again on the same library", msg));
                }
                return Ok(());
            }
            if f.unsupported {
                ctx.refused("documented unsupported LEF feature");
                return Ok(());
            }
            return Err(format!("import of a supported LEF library failed: {}", msg));
        }
        Ok(l) => l,
    };
    if f.fine && matches!(rl.units, raw::Units::Angstrom) {
        return Err("a coordinate that is not a whole number of raw units (a non-zero digit beyond the fourth decimal of a micron) was imported instead of reported as an error".into());
    }
    if f.unsupported {
        ctx.label("unsupported feature imported anyway (not asserted)");
        return Ok(());
    }
    let interesting = lib.macros.iter().any(|m| m.pins.iter().any(|p| p.ports.iter().any(|q| q.layers.iter().any(|l| !l.geometries.is_empty()))));
    if interesting {
        ctx.nontrivial(hash_of(&format!("{:?}", lib)));
    }
    if lib.macros.iter().any(|m| m.pins.iter().any(|p| {
        let mut names: Vec<&String> = p.ports.iter().flat_map(|q| q.layers.iter().map(|l| &l.layer_name)).collect();
        let n = names.len();
        names.sort();
        names.dedup();
        names.len() < n
    })) {
        ctx.label("pin with the same layer named in several blocks");
    }
    ctx.sample("LEF library", || {
        let mut s = format!("{:?}", lib.macros);
        crate::engine::clip(&mut s, 1200);
        s
    });
    // the number of raw units per micron follows from the units of the returned library
    let per_micron: i128 = match rl.units {
        raw::Units::Micro => 1,
        raw::Units::Nano => 1_000,
        raw::Units::Angstrom => 10_000,
        raw::Units::Pico => 1_000_000,
    };
    RAW_PER_MICRON.with(|r| r.set(per_micron));
    if per_micron != 10_000 {
        ctx.label("importer returned units other than angstrom");
    }
    let layers = rl.layers.read().map_err(|_| "lock")?;
    if rl.cells.len() != lib.macros.len() {
        return Err(format!("{} macros imported as {} cells", lib.macros.len(), rl.cells.len()));
    }
    for (m, cptr) in lib.macros.iter().zip(rl.cells.iter()) {
        let cell = cptr.read().map_err(|_| "lock")?;
        if cell.name != m.name {
            return Err(format!("macro {} imported as cell {}", m.name, cell.name));
        }
        if cell.layout.is_some() {
            return Err(format!("macro {} imported with a layout view", m.name));
        }
        let abs = cell.abs.as_ref().ok_or_else(|| format!("macro {} imported without an abstract", m.name))?;
        let (sx, sy) = m.size.as_ref().unwrap();
        let (x, y) = (scale_exact(sx).unwrap(), scale_exact(sy).unwrap());
        let want_outline = vec![(0, 0), (x, 0), (x, y), (0, y)];
        let got_outline: Vec<P> = abs.outline.points.iter().map(|p| (p.x as i64, p.y as i64)).collect();
        if got_outline != want_outline {
            return Err(format!("macro {} SIZE {} BY {}: outline {:?}, expected {:?}", m.name, sx, sy, got_outline, want_outline));
        }
        if abs.ports.len() != m.pins.len() {
            return Err(format!("macro {}: {} pins imported as {} ports", m.name, m.pins.len(), abs.ports.len()));
        }
        for (pin, port) in m.pins.iter().zip(abs.ports.iter()) {
            if port.net != pin.name {
                return Err(format!("macro {}: pin {} imported as port {}", m.name, pin.name, port.net));
            }
            let want = strip_empty(expect_blocks(pin.ports.iter().flat_map(|q| q.layers.iter())).ok_or("model")?);
            let got = strip_empty(got_shapes(&layers, &port.shapes)?);
            if want != got {
                return Err(format!("macro {} pin {}: shapes by layer name differ from the LEF geometries scaled by 10000 per micron.\n expected {:?}\n got      {:?}", m.name, pin.name, want, got));
            }
        }
        let want = strip_empty(expect_blocks(m.obs.iter()).ok_or("model")?);
        let got = strip_empty(got_shapes(&layers, &abs.blockages)?);
        if want != got {
            return Err(format!("macro {}: obstructions by layer name differ from the LEF geometries scaled by 10000 per micron.\n expected {:?}\n got      {:?}", m.name, want, got));
        }
    }
    Ok(())
}
fn main_case(src: &mut Src, ctx: &mut Ctx) -> Result<(), String> {
    let (lib, f) = gen_lib(src);
    if src.prob(1, 4) {
        // through rendered text and the reader
        let (txt, _) = render(&lib, src, RenderOpts { vary: true, nonascii_comments: false, permute: true, end_library: true });
        match open_text(&txt) {
            Ok(read) => {
                ctx.label("through LEF text and the reader");
                return oracle(&read, &f, ctx);
            }
            Err(_) => {
                ctx.refused("reader rejected the rendered text (C04's business)");
                return Ok(());
            }
        }
    }
    oracle(&lib, &f, ctx)
}
fn literal_case(src: &mut Src, ctx: &mut Ctx) -> Result<(), String> {
    let texts = [
        "MACRO m SIZE 1.50 BY 2.5 ; PIN a PORT LAYER met1 ; RECT 0.1 0.25 1.50 2.000 ; END END a END m END LIBRARY",
        "MACRO m SIZE 3 BY 2 ; PIN a PORT LAYER met1 ; RECT 0 1 2 3 ; END PORT LAYER met1 ; RECT 4 5 6 7 ; LAYER met2 ; POLYGON 0 0 1 0 1 2 ; END END a OBS LAYER met1 ; WIDTH 0.14 ; PATH 0 0 0 5 -1.5 5 ; END END m END LIBRARY",
    ];
    // a library naming a few hundred layers (every name gets a layer of its own)
    let mut many = String::from("MACRO wide SIZE 1 BY 1 ; OBS ");
    // (700 of them: should the import go into a layer set that already holds half of the names under numbers of
    // the caller's choosing, more than 255 are still numbered by the importer)
    for k in 0..700 {
        many.push_str(&format!("LAYER lay{} ; RECT 0 {} 1 {} ; ", k, k, k + 1));
    }
    many.push_str("END END wide END LIBRARY");
    let texts: Vec<&str> = texts.iter().cloned().chain(std::iter::once(many.as_str())).collect();
    let i = src.u64() as usize % texts.len();
    let lib = open_text(texts[i]).map_err(|e| format!("literal rejected by the reader: {:?}", e))?;
    oracle(&lib, &Flags::default(), ctx).map_err(|e| { let mut t = texts[i].to_string(); crate::engine::clip(&mut t, 200); format!("[{}] {}", t, e) })
}
fn run(run: &mut Run) {
    run.rule("LEF libraries with 1-5 macros: SIZE, 0-6 pins with 1-3 ports, 0-4 obstruction blocks, rectangles / polygons / paths (LAYER WIDTH) on a small pool of layer names (so the same layer recurs within a pin), coordinates with 0-4 significant decimals written with 0-6 decimals, negatives, x != y always; 1 in 4 through rendered text and the reader; classes 'not a whole number of raw units' (must be an error) and documented-unsupported features (error accepted). Oracle: decimal-scaling model value x 10000 on (mantissa, scale) integers. Non-trivial = library with a pin geometry (or the non-integral class); distinct by hash of the value.");
    run.assume("the importer's raw unit is the angstrom (10000 per micron), as its documentation says; layer numbers, vias, masks are not compared");
    run.min_nontrivial = 200;
    run.literals("literals", &[vec![0, 0], vec![0, 1], vec![0, 2]], &literal_case);
    run.explore("import", run.tier.pick(300_000, 4_000_000), 1500, &main_case);
    // the same, each case in a thread of its own (per-thread state of the code starts from scratch)
    run.explore_fresh("import", run.tier.pick(3_000, 40_000), 1500, &main_case);
}
fn case(sub: &str) -> Option<Box<CaseFn<'static>>> {
    match sub {
        "literals" => Some(Box::new(literal_case)),
        "import" => Some(Box::new(main_case)),
        _ => None,
    }
}
fn render_case(sub: &str, choices: &[u32]) -> Option<String> {
    let mut src = Src::new(choices);
    match sub {
        "import" => {
            let (lib, f) = gen_lib(&mut src);
            Some(format!("{:?} {:?}", f, lib.macros))
        }
        _ => None,
    }
}
