//! C01 — GDSII write-then-read returns the library that was written.
//! C02 — the bytes written are a well-formed GDSII stream with that content.
//! C03 — every grammar-conformant stream is read to exactly the content it encodes.
use super::PropDef;
use crate::engine::{child::scratch_path, hash_of, CaseFn, Ctx, Run, Src};
use crate::gen::gds::*;
use crate::refmodel::gdsspec as S;

pub fn def_c01() -> PropDef {
    PropDef { id: "C01", level: "exploration", run: run_c01, case: case_c01, render }
}
pub fn def_c02() -> PropDef {
    PropDef { id: "C02", level: "exploration", run: run_c02, case: case_c02, render }
}
pub fn def_c03() -> PropDef {
    PropDef { id: "C03", level: "exploration", run: run_c03, case: case_c03, render: render_c03 }
}

fn opts() -> GdsGenOpts {
    GdsGenOpts::default()
}

fn classify(m: &MLib, ctx: &mut Ctx) {
    for k in m.kinds() {
        ctx.label(&format!("element: {}", k));
    }
    let strs = m.strings();
    if strs.iter().any(|s| s.is_empty()) {
        ctx.label("has empty string");
    }
    if strs.iter().any(|s| s.len() % 2 == 1) {
        ctx.label("has odd-length string");
    }
    if strs.iter().any(|s| !s.is_ascii()) {
        ctx.label("has non-ASCII string");
    }
    if m.structs.iter().any(|s| s.elems.iter().any(|e| !e.common().props.is_empty())) {
        ctx.label("has properties");
    }
    if m.structs.iter().any(|s| s.elems.iter().any(|e| matches!(e, MElem::Sref { strans: Some(_), .. } | MElem::Aref { strans: Some(_), .. } | MElem::Text { strans: Some(_), .. }))) {
        ctx.label("has transform");
    }
    if m.structs.is_empty() {
        ctx.label("no structs");
    }
}
fn summary(m: &MLib) -> String {
    let mut s = format!("{:?}", m);
    if s.len() > 1200 {
        let mut cut = 1200;
        while !s.is_char_boundary(cut) {
            cut -= 1;
        }
        s.truncate(cut);
        s.push('…');
    }
    s
}

// ---------------------------------------------------------------------------------------------
// C01
// ---------------------------------------------------------------------------------------------
fn c01_case(src: &mut Src, ctx: &mut Ctx) -> Result<(), String> {
    let (m, big) = gen_lib(src, &opts());
    let via_file = src.prob(1, 16);
    c01_oracle(&m, big, via_file, ctx)
}
fn c01_oracle(m: &MLib, big: bool, via_file: bool, ctx: &mut Ctx) -> Result<(), String> {
    let lib = to_gds(m);
    let back = if via_file {
        ctx.label("through save/open on a file");
        let path = scratch_path("c01.gds");
        // the path already holds an older, longer file: save must replace it
        let _ = std::fs::write(&path, vec![0xA5u8; 70_000]);
        let r = lib.save(&path);
        let out = match r {
            Err(e) => Err(e),
            Ok(()) => Ok(gds21::GdsLibrary::open(&path)),
        };
        let _ = std::fs::remove_file(&path);
        out
    } else if hash_of(m) % 8 == 3 {
        // a destination that takes only a few bytes per call, as pipes, sockets and line-buffered
        // writers legally do: every byte must still arrive
        ctx.label("through a writer that accepts a few bytes per call");
        struct Trickle(Vec<u8>, usize);
        impl std::io::Write for Trickle {
            fn write(&mut self, b: &[u8]) -> std::io::Result<usize> {
                let n = b.len().min(self.1);
                self.0.extend_from_slice(&b[..n]);
                Ok(n)
            }
            fn flush(&mut self) -> std::io::Result<()> {
                Ok(())
            }
        }
        let mut dest = Trickle(Vec::new(), 1 + (hash_of(m) % 7) as usize);
        match lib.write(&mut dest) {
            Err(e) => Err(e),
            Ok(()) => Ok(gds21::GdsLibrary::from_bytes(&dest.0)),
        }
    } else {
        let mut bytes = Vec::new();
        match lib.write(&mut bytes) {
            Err(e) => Err(e),
            Ok(()) => Ok(gds21::GdsLibrary::from_bytes(&bytes)),
        }
    };
    match back {
        Err(e) => {
            // the statement allows "fails with an error"
            let why = if big { "write refused: record beyond the 16-bit length limit" } else { "write refused: other" };
            ctx.refused(why);
            if !big {
                ctx.label(&format!("refused-representable: {}", short(&format!("{:?}", e))));
            }
            Ok(())
        }
        Ok(Err(e)) => Err(format!("bytes written for the library do not read back: {}", short(&format!("{:?}", e)))),
        Ok(Ok(l2)) => {
            if big {
                ctx.label("near the record limit, written");
            }
            classify(m, ctx);
            if m.nontrivial() {
                ctx.nontrivial(hash_of(m));
                ctx.sample("round-tripped library", || summary(m));
            }
            if l2 != lib {
                return Err(format!("library read back differs from the one written; {}", first_diff(&format!("{:?}", lib), &format!("{:?}", l2))));
            }
            Ok(())
        }
    }
}
fn short(s: &str) -> String {
    let mut t = s.to_string();
    if t.len() > 160 {
        let mut cut = 160;
        while !t.is_char_boundary(cut) {
            cut -= 1;
        }
        t.truncate(cut);
    }
    t
}

/// Hand-written boundary cases; also the regression inputs for repaired defects.
fn literal_libs() -> Vec<(&'static str, MLib)> {
    let d: [i16; 12] = [100, 1, 2, 3, 4, 5, 101, 6, 7, 8, 9, 10];
    let base = |name: &str, elems: Vec<MElem>| MLib {
        name: name.to_string(),
        version: 3,
        dates: d,
        units: (1e-3f64.to_bits(), 1e-9f64.to_bits()),
        structs: vec![MStruct { name: "cell".into(), dates: d, elems }],
    };
    let c0 = MCommon::default();
    vec![
        ("empty library name", MLib { name: "".into(), version: 3, dates: d, units: (1e-3f64.to_bits(), 1e-9f64.to_bits()), structs: vec![] }),
        ("empty text string", base("lib", vec![MElem::Text { string: "".into(), layer: 1, texttype: 0, xy: (0, 0), presentation: None, path_type: None, width: None, strans: None, c: c0.clone() }])),
        ("empty property value", base("lib", vec![MElem::Boundary { layer: 1, datatype: 0, xy: vec![(0, 0), (1, 0), (1, 1), (0, 0)], c: MCommon { elflags: None, plex: None, props: vec![(1, "".into())] } }])),
        ("empty struct name", MLib { name: "lib".into(), version: 3, dates: d, units: (1e-3f64.to_bits(), 1e-9f64.to_bits()), structs: vec![MStruct { name: "".into(), dates: d, elems: vec![] }] }),
        ("units just below a power of sixteen", MLib { name: "lib".into(), version: 3, dates: d, units: (0x402fffffffffffff, 0x3fafffffffffffff), structs: vec![] }),
        ("path with every optional field", base("lib", vec![MElem::Path { layer: -1, datatype: 7, xy: vec![(i32::MIN, i32::MAX), (0, -1)], path_type: Some(4), width: Some(-10), begin_extn: Some(5), end_extn: Some(-6), c: MCommon { elflags: Some((0x80, 0x01)), plex: Some(i32::MIN), props: vec![(1, "a".into()), (2, "bc".into())] } }])),
        ("node and box", base("lib", vec![MElem::Node { layer: 3, nodetype: 4, xy: vec![(1, 2)], c: c0.clone() }, MElem::Box { layer: 5, boxtype: 6, xy: [(0, 0), (2, 0), (2, 2), (0, 2), (0, 0)], c: c0.clone() }])),
        ("aref with full transform", base("lib", vec![MElem::Aref { name: "x".into(), xy: [(0, 0), (10, 0), (0, 20)], cols: 2, rows: 5, strans: Some(MStrans { reflected: true, abs_mag: true, abs_angle: true, mag: Some(2.5f64.to_bits()), angle: Some(270f64.to_bits()) }), c: c0.clone() }])),
    ]
}
fn c01_literal(src: &mut Src, ctx: &mut Ctx) -> Result<(), String> {
    let libs = literal_libs();
    let i = src.u64() as usize % libs.len();
    ctx.label(&format!("literal: {}", libs[i].0));
    c01_oracle(&libs[i].1, false, false, ctx).map_err(|e| format!("[{}] {}", libs[i].0, e))
}
fn literal_words(n: usize) -> Vec<Vec<u32>> {
    (0..n as u32).map(|i| vec![0, i]).collect()
}

fn run_c01(run: &mut Run) {
    run.rule("G-gds libraries built by construction: 0-5 structs x 0-8 elements of all seven kinds, every optional field independently present, strings of length 0/1/2/odd/even incl. non-ASCII, full-range coordinates, in-range reals, records straddling the 16-bit limit. Non-trivial = write succeeded and some element carries an optional field, property, or empty/odd-length string; distinct by hash of the model.");
    run.assume("strings never contain NUL (the format's pad byte); reals lie in the normalised range 16^-65 <= |x| < 16^63 or are zero");
    run.assume("a write error is accepted (the statement allows it); a writer refusing everything trips the vacuity guard");
    run.min_nontrivial = 50;
    run.literals("literals", &literal_words(literal_libs().len()), &c01_literal);
    run.explore("roundtrip", run.tier.pick(400_000, 6_000_000), 1500, &c01_case);
    // the same, each case in a thread of its own (per-thread state of the code starts from scratch)
    run.explore_fresh("roundtrip", run.tier.pick(3_000, 40_000), 1500, &c01_case);
}
fn case_c01(sub: &str) -> Option<Box<CaseFn<'static>>> {
    match sub {
        "literals" => Some(Box::new(c01_literal)),
        "roundtrip" => Some(Box::new(c01_case)),
        _ => None,
    }
}
fn render(sub: &str, choices: &[u32]) -> Option<String> {
    let mut src = Src::new(choices);
    match sub {
        "roundtrip" | "wellformed" => Some(summary(&gen_lib(&mut src, &opts()).0)),
        "literals" => {
            let l = literal_libs();
            let i = src.u64() as usize % l.len();
            Some(format!("{}: {}", l[i].0, summary(&l[i].1)))
        }
        _ => None,
    }
}

// ---------------------------------------------------------------------------------------------
// C02
// ---------------------------------------------------------------------------------------------
fn c02_oracle(m: &MLib, ctx: &mut Ctx) -> Result<(), String> {
    let lib = to_gds(m);
    let mut bytes = Vec::new();
    if lib.write(&mut bytes).is_err() {
        ctx.refused("write refused");
        return Ok(());
    }
    // writing is a function of the library: a second call on the same value gives the same bytes
    {
        let mut again = Vec::new();
        if lib.write(&mut again).is_err() || again != bytes {
            return Err(format!("write() called twice on one library gave two results ({} and {} bytes)", bytes.len(), again.len()));
        }
    }
    classify(m, ctx);
    if m.nontrivial() {
        ctx.nontrivial(hash_of(m));
        ctx.sample("decoded by the reference decoder", || summary(m));
    }
    // every 8th library (by content) is also written to a destination that takes a few bytes per call:
    // the bytes that arrive must be the same stream
    if hash_of(m) % 8 == 5 {
        ctx.label("also written through a writer that accepts a few bytes per call");
        struct Trickle(Vec<u8>, usize);
        impl std::io::Write for Trickle {
            fn write(&mut self, b: &[u8]) -> std::io::Result<usize> {
                let n = b.len().min(self.1);
                self.0.extend_from_slice(&b[..n]);
                Ok(n)
            }
            fn flush(&mut self) -> std::io::Result<()> {
                Ok(())
            }
        }
        let mut dest = Trickle(Vec::new(), 1 + (hash_of(m) % 5) as usize);
        lib.write(&mut dest).map_err(|e| format!("write() to a slow destination failed although write() to memory succeeded: {:?}", e))?;
        if dest.0 != bytes {
            return Err(format!("a destination that accepts {} bytes per call received {} bytes, memory received {}: the streams differ", dest.1, dest.0.len(), bytes.len()));
        }
    }
    // every 8th library (by content) is also written to a destination that stops accepting bytes part of
    // the way (a full disk): either write() reports the failure, or what arrived is the whole stream -
    // `Ok` over a destination that holds a stream without its end-of-library record is neither
    if hash_of(m) % 8 == 3 {
        ctx.label("also written to a destination that fails part of the way");
        struct Full(Vec<u8>, usize);
        impl std::io::Write for Full {
            fn write(&mut self, b: &[u8]) -> std::io::Result<usize> {
                let room = self.1.saturating_sub(self.0.len());
                if room == 0 && !b.is_empty() {
                    return Err(std::io::Error::new(std::io::ErrorKind::Other, "no space left on device"));
                }
                let n = b.len().min(room);
                self.0.extend_from_slice(&b[..n]);
                Ok(n)
            }
            fn flush(&mut self) -> std::io::Result<()> {
                Ok(())
            }
        }
        let limit = (hash_of(&(m, 1u8)) % bytes.len().max(1) as u64) as usize;
        let mut dest = Full(Vec::new(), limit);
        let r = lib.write(&mut dest);
        if r.is_ok() && dest.0 != bytes {
            return Err(format!("write() returned Ok although the destination refused everything after byte {}: it holds {} of the {} bytes of the stream (no end-of-library record)", limit, dest.0.len(), bytes.len()));
        }
    }
    // every 16th library (by content) also goes through save() onto a path that already holds an
    // older, longer file: the file must hold exactly the stream, nothing left over
    if hash_of(m) % 16 == 0 {
        ctx.label("file written by save() over an older, longer file");
        let path = scratch_path("c02.gds");
        let _ = std::fs::write(&path, vec![0x5Au8; bytes.len() + 4096]);
        let r = lib.save(&path);
        let file = std::fs::read(&path);
        let _ = std::fs::remove_file(&path);
        r.map_err(|e| format!("save() failed although write() succeeded: {:?}", e))?;
        let file = file.map_err(|e| e.to_string())?;
        if file != bytes {
            return Err(format!("the file written by save() ({} bytes) is not the stream write() produces ({} bytes); {}", file.len(), bytes.len(), if file.len() > bytes.len() && file[..bytes.len()] == bytes[..] { "the stream is followed by left-over bytes of the file that was there before".to_string() } else { "content differs".to_string() }));
        }
    }
    let (dm, consumed) = S::decode(&bytes).map_err(|e| format!("written bytes are not a well-formed GDSII stream: {}", e))?;
    if consumed != bytes.len() {
        return Err(format!("{} bytes follow the ENDLIB record: the stream must end with it", bytes.len() - consumed));
    }
    if &dm != m {
        return Err(format!("independent decoder recovers different content; {}", first_diff(&format!("{:?}", m), &format!("{:?}", dm))));
    }
    Ok(())
}
fn c02_case(src: &mut Src, ctx: &mut Ctx) -> Result<(), String> {
    let (m, _big) = gen_lib(src, &opts());
    c02_oracle(&m, ctx)
}
fn c02_literal(src: &mut Src, ctx: &mut Ctx) -> Result<(), String> {
    let libs = literal_libs();
    let i = src.u64() as usize % libs.len();
    c02_oracle(&libs[i].1, ctx).map_err(|e| format!("[{}] {}", libs[i].0, e))
}
fn run_c02(run: &mut Run) {
    run.rule("Same library space as C01 restricted to libraries whose write succeeds; all twelve date fields pairwise distinct and cols != rows so permutations are visible. Non-trivial as C01; distinct by hash of the model.");
    run.assume("R-gdsspec (harness/src/refmodel/gdsspec.rs) is the specification: record numbering, data types, fixed payload sizes, BNF order, big-endian integers, excess-64 reals (normalised, exact), STRANS bits 0x8000/0x0004/0x0002, single NUL pad on odd strings");
    run.min_nontrivial = 50;
    run.literals("literals", &literal_words(literal_libs().len()), &c02_literal);
    run.explore("wellformed", run.tier.pick(400_000, 6_000_000), 1500, &c02_case);
    // the same, each case in a thread of its own (per-thread state of the code starts from scratch)
    run.explore_fresh("wellformed", run.tier.pick(3_000, 40_000), 1500, &c02_case);
}
fn case_c02(sub: &str) -> Option<Box<CaseFn<'static>>> {
    match sub {
        "literals" => Some(Box::new(c02_literal)),
        "wellformed" => Some(Box::new(c02_case)),
        _ => None,
    }
}

// ---------------------------------------------------------------------------------------------
// C03
// ---------------------------------------------------------------------------------------------
fn c03_opts() -> GdsGenOpts {
    GdsGenOpts { oversize: false, distinct_fields: false, ..GdsGenOpts::default() }
}
fn gen_c03(src: &mut Src) -> (MLib, S::EncOpts) {
    let (m, _) = gen_lib(src, &c03_opts());
    let trailing = match src.weighted(&[4, 3, 3]) {
        0 => vec![],
        1 => vec![0xAAu8; 0], // placeholder, fixed below (zeros to the next 2048 boundary)
        _ => {
            let n = src.usize_in(1, 64);
            (0..n).map(|_| src.below(256) as u8).collect()
        }
    };
    let zero_pad = trailing.is_empty() && src.prob(1, 2);
    let extra = if src.prob(1, 8) { Some(src.pick(S::LIB_EXTRAS).clone()) } else { None };
    let mut o = S::EncOpts { trailing, extra };
    if zero_pad {
        let len = S::encode(&m, &S::EncOpts::default()).out.len();
        o.trailing = vec![0u8; (2048 - len % 2048) % 2048];
    }
    (m, o)
}
fn c03_case(src: &mut Src, ctx: &mut Ctx) -> Result<(), String> {
    let (m, o) = gen_c03(src);
    let via_file = src.prob(1, 16);
    c03_oracle(&m, &o, via_file, ctx)
}
fn c03_oracle(m: &MLib, o: &S::EncOpts, via_file: bool, ctx: &mut Ctx) -> Result<(), String> {
    let enc = S::encode(m, o);
    let got = if via_file {
        let path = scratch_path("c03.gds");
        std::fs::write(&path, &enc.out).map_err(|e| e.to_string())?;
        let r = gds21::GdsLibrary::open(&path);
        let _ = std::fs::remove_file(&path);
        r
    } else {
        gds21::GdsLibrary::from_bytes(&enc.out)
    };
    if let Some(x) = &o.extra {
        ctx.label(&format!("unsupported library record: {:?}", x));
        ctx.nontrivial(hash_of(&(m, x)));
        return match got {
            Err(_) => Ok(()),
            Ok(_) => Err(format!("stream using the unsupported library-level feature {:?} was accepted instead of reported as an error", x)),
        };
    }
    classify(m, ctx);
    if !o.trailing.is_empty() {
        ctx.label(if o.trailing.iter().all(|b| *b == 0) { "trailing zero padding" } else { "trailing arbitrary bytes" });
    }
    let nontrivial = m.kinds().iter().any(|k| *k != "boundary" && *k != "text") || m.nontrivial() || !o.trailing.is_empty();
    if nontrivial {
        ctx.nontrivial(hash_of(&(m, &o.trailing)));
        ctx.sample("conformant stream", || format!("{} bytes, {} trailing; {}", enc.out.len(), o.trailing.len(), summary(m)));
    }
    let want = to_gds(m);
    match got {
        Err(e) => Err(format!("grammar-conformant stream rejected: {}", short(&format!("{:?}", e)))),
        Ok(l) => {
            if l != want {
                Err(format!("stream read to different content; {}", first_diff(&format!("{:?}", want), &format!("{:?}", l))))
            } else {
                Ok(())
            }
        }
    }
}
fn c03_literal(src: &mut Src, ctx: &mut Ctx) -> Result<(), String> {
    let libs = literal_libs();
    let i = src.u64() as usize % libs.len();
    c03_oracle(&libs[i].1, &S::EncOpts::default(), false, ctx).map_err(|e| format!("[{}] {}", libs[i].0, e))
}
fn run_c03(run: &mut Run) {
    run.rule("Streams produced by the independent reference encoder from G-gds models: all element kinds, every optional-record subset in spec order, strings of length 0..44 (odd ones NUL-padded), arbitrary 16-bit dates, nothing / zero padding to the next 2048 boundary / 1-64 arbitrary bytes after ENDLIB; 1 in 8 with one unsupported library-level record (expected: error). Non-trivial = an element kind other than boundary/text, an optional record, an empty/odd string, trailing bytes, or a negative case; distinct by hash of (model, trailing bytes).");
    run.assume("conformant = records in the order of the specification's BNF; streams in other orders, STRCLASS and double-NUL padding are outside the domain");
    run.min_nontrivial = 50;
    run.literals("literals", &literal_words(literal_libs().len()), &c03_literal);
    run.explore("conformant", run.tier.pick(400_000, 6_000_000), 1500, &c03_case);
    // the same, each case in a thread of its own (per-thread state of the code starts from scratch)
    run.explore_fresh("conformant", run.tier.pick(3_000, 40_000), 1500, &c03_case);
}
fn case_c03(sub: &str) -> Option<Box<CaseFn<'static>>> {
    match sub {
        "literals" => Some(Box::new(c03_literal)),
        "conformant" => Some(Box::new(c03_case)),
        _ => None,
    }
}
fn render_c03(sub: &str, choices: &[u32]) -> Option<String> {
    let mut src = Src::new(choices);
    match sub {
        "conformant" => {
            let (m, o) = gen_c03(&mut src);
            Some(format!("extra={:?} trailing={} bytes; {}", o.extra, o.trailing.len(), summary(&m)))
        }
        _ => render(sub, choices),
    }
}
