//! C12 — instance transforms compose like the geometric operations they name.
use super::PropDef;
use crate::engine::{hash_of, CaseFn, Ctx, Run, Src, Tier};
use crate::refmodel::geom::{Affine, Orient, P};
use layout21raw as raw;
use layout21utils::Ptr;
use raw::{Point, Transform};

pub fn def() -> PropDef {
    PropDef { id: "C12", level: "exploration", run, case, render }
}

const OFFSETS: &[P] = &[(0, 0), (3, -2), (-7, 5), (1 << 20, -(1 << 20)), (-(1 << 20) + 1, 12345), (5, 0), (0, -9)];
const GRID: i64 = 4; // points -4..=4 in both axes

#[derive(Clone, Copy, Debug, PartialEq, Eq, Hash)]
struct Place {
    loc: P,
    o: Orient,
    /// spell a zero angle as `None` instead of `Some(0.)`
    none_angle: bool,
}
impl Place {
    fn transform(&self) -> Transform {
        let angle = if self.o.rot == 0 && self.none_angle { None } else { Some(self.o.angle()) };
        Transform::from_instance(&Point::new(self.loc.0 as isize, self.loc.1 as isize), self.o.refl, angle)
    }
    fn affine(&self) -> Affine {
        Affine::placement(self.loc, self.o)
    }
}
fn pt(p: P) -> Point {
    Point::new(p.0 as isize, p.1 as isize)
}
fn tp(p: Point) -> P {
    (p.x as i64, p.y as i64)
}

/// Decode chain index: per level 8 orientations x OFFSETS.len() offsets
fn per_level() -> u64 {
    8 * OFFSETS.len() as u64
}
fn chain_of(depth: usize, mut i: u64) -> Vec<Place> {
    let mut v = vec![];
    for lvl in 0..depth {
        let k = i % per_level();
        i /= per_level();
        v.push(Place { o: Orient::from_index((k % 8) as usize), loc: OFFSETS[(k / 8) as usize], none_angle: lvl % 2 == 0 });
    }
    v
}

/// Obligations (a), (b), (c) for one chain, on every point of the grid.
fn check_chain(chain: &[Place], ctx: &mut Ctx) -> Result<(), String> {
    // the library's composition, built the way `flatten` builds it
    let mut t = Transform::identity();
    let mut a = Affine::identity();
    for pl in chain {
        t = Transform::cascade(&t, &pl.transform());
        a = a.then_child(&pl.affine());
    }
    if chain.iter().any(|p| p.o.refl && p.o.rot % 2 == 1) {
        ctx.nontrivial(hash_of(&chain));
        ctx.label("chain with a reflected + rotated placement");
    }
    for x in -GRID..=GRID {
        for y in -GRID..=GRID {
            let got = tp(pt((x, y)).transform(&t));
            let want = a.apply((x, y));
            if got != want {
                return Err(format!("chain {:?}: point ({},{}) lands at {:?}; reflect -> rotate ccw -> translate, composed along the chain, gives {:?}", chain, x, y, got, want));
            }
        }
    }
    if chain.len() == 1 {
        // (b) differential: the library's own elementary transforms, composed in the stated order
        let pl = &chain[0];
        let mut e = Transform::identity();
        if pl.o.refl {
            e = Transform::cascade(&Transform::reflect_vert(), &e);
        }
        e = Transform::cascade(&Transform::rotate(pl.o.angle()), &e);
        e = Transform::cascade(&Transform::translate(pl.loc.0 as f64, pl.loc.1 as f64), &e);
        for x in -GRID..=GRID {
            for y in -GRID..=GRID {
                let got = tp(pt((x, y)).transform(&pl.transform()));
                let el = tp(pt((x, y)).transform(&e));
                if got != el {
                    return Err(format!("placement {:?}: from_instance moves ({},{}) to {:?}, translate∘rotate∘reflect built from the elementary transforms moves it to {:?}", pl, x, y, got, el));
                }
            }
        }
    }
    Ok(())
}
fn chains_total(depth: usize) -> u64 {
    per_level().pow(depth as u32)
}
fn chain_case(depth: usize) -> impl Fn(&mut Src, &mut Ctx) -> Result<(), String> {
    move |src, ctx| {
        let i = src.u64();
        let chain = chain_of(depth, i);
        ctx.extra_evals(((2 * GRID + 1) * (2 * GRID + 1) - 1) as u64);
        if i % 50_021 == 0 {
            ctx.sample(&format!("depth-{} chain", depth), || format!("{:?}", chain));
        }
        check_chain(&chain, ctx)
    }
}
fn random_chain(src: &mut Src) -> Vec<Place> {
    let depth = src.usize_in(1, 4);
    (0..depth)
        .map(|_| Place {
            o: Orient::from_index(src.index(8)),
            loc: match src.weighted(&[6, 6, 4, 1]) {
                0 => *src.pick(OFFSETS),
                1 => (src.signed(1000), src.signed(1000)),
                2 => (src.signed(1 << 30), src.signed(1 << 30)),
                // coordinates are machine integers: nothing ends at 32 bits
                _ => {
                    let far = |src: &mut Src| *src.pick(&[i32::MAX as i64, i32::MIN as i64, 1i64 << 31, -(1i64 << 31) - 1, (1i64 << 32) + 5, -(1i64 << 40), 1i64 << 45]) + src.signed(3);
                    match src.below(3) {
                        0 => (far(src), src.signed(1000)),
                        1 => (src.signed(1000), far(src)),
                        _ => (far(src), far(src)),
                    }
                }
            },
            none_angle: src.bool(),
        })
        .collect()
}
fn random_chain_case(src: &mut Src, ctx: &mut Ctx) -> Result<(), String> {
    let chain = random_chain(src);
    ctx.sample("random chain", || format!("{:?}", chain));
    check_chain(&chain, ctx)
}

// ---- (d) flatten over real cell hierarchies ------------------------------------------------------
#[derive(Clone, Debug, PartialEq, Eq, Hash, PartialOrd, Ord)]
enum MShape {
    Rect(P, P),
    Poly(Vec<P>),
    Path(Vec<P>, usize),
}
impl MShape {
    fn map(&self, a: &Affine) -> MShape {
        match self {
            MShape::Rect(p, q) => MShape::Rect(a.apply(*p), a.apply(*q)),
            MShape::Poly(v) => MShape::Poly(v.iter().map(|p| a.apply(*p)).collect()),
            MShape::Path(v, w) => MShape::Path(v.iter().map(|p| a.apply(*p)).collect(), *w),
        }
    }
    fn to_raw(&self) -> raw::Shape {
        match self {
            MShape::Rect(p, q) => raw::Shape::Rect(raw::Rect { p0: pt(*p), p1: pt(*q) }),
            MShape::Poly(v) => raw::Shape::Polygon(raw::Polygon { points: v.iter().map(|p| pt(*p)).collect() }),
            MShape::Path(v, w) => raw::Shape::Path(raw::Path { points: v.iter().map(|p| pt(*p)).collect(), width: *w }),
        }
    }
    fn from_raw(s: &raw::Shape) -> MShape {
        match s {
            raw::Shape::Rect(r) => MShape::Rect(tp(r.p0), tp(r.p1)),
            raw::Shape::Polygon(p) => MShape::Poly(p.points.iter().map(|p| tp(*p)).collect()),
            raw::Shape::Path(p) => MShape::Path(p.points.iter().map(|p| tp(*p)).collect(), p.width),
        }
    }
    /// signed area sign of a polygon, to check mirror images
    fn orientation_sign(&self) -> i128 {
        match self {
            MShape::Poly(v) => crate::refmodel::geom::area2(v).signum(),
            _ => 0,
        }
    }
}
#[derive(Clone, Debug, Hash)]
struct MCell {
    shapes: Vec<(usize, MShape)>, // (layer index, shape)
    insts: Vec<(usize, Place)>,   // (index of an earlier cell, placement)
}
fn gen_shape(src: &mut Src) -> MShape {
    let p = |src: &mut Src| (src.signed(40), src.signed(40));
    match src.below(3) {
        0 => MShape::Rect(p(src), p(src)),
        1 => {
            // (down to the degenerate lists: a point is moved like any other, whatever list holds it)
            let n = if src.prob(1, 8) { src.usize_in(1, 2) } else { src.usize_in(3, 6) };
            let mut v: Vec<P> = (0..n).map(|_| p(src)).collect();
            // (an outline may repeat its first vertex at the end: one more point to move)
            if n >= 3 && src.prob(1, 5) {
                v.push(v[0]);
            }
            MShape::Poly(v)
        }
        _ => {
            let n = if src.prob(1, 6) { 1 } else { src.usize_in(2, 5) };
            MShape::Path((0..n).map(|_| p(src)).collect(), src.usize_in(0, 9))
        }
    }
}
fn gen_hierarchy(src: &mut Src) -> Vec<MCell> {
    let ncells = src.usize_in(1, 5);
    let mut cells = vec![];
    for c in 0..ncells {
        // now and then a cell that holds nothing at all (a placeholder): its instances flatten to nothing
        let empty = c > 0 && c + 1 < ncells && src.prob(1, 5);
        let ns = if empty { 0 } else { src.usize_in(if c == 0 { 1 } else { 0 }, 3) };
        let mut shapes: Vec<(usize, MShape)> = (0..ns).map(|_| (src.index(3), gen_shape(src))).collect();
        let ni = if c == 0 || empty { 0 } else { src.usize_in(1, 3) };
        let mut insts: Vec<(usize, Place)> = (0..ni)
            .map(|_| {
                // bias towards the previous cell so that depth builds up
                let target = if src.bool() { c - 1 } else { src.index(c) };
                (target, Place { o: Orient::from_index(src.index(8)), loc: (src.signed(500), src.signed(500)), none_angle: src.bool() })
            })
            .collect();
        // a shape drawn twice, an instance placed twice (every copy is in the flattened result)
        if !shapes.is_empty() && src.prob(1, 6) {
            let k = src.index(shapes.len());
            let d = shapes[k].clone();
            shapes.insert(k + 1, d);
        }
        if !insts.is_empty() && src.prob(1, 6) {
            let k = src.index(insts.len());
            let d = insts[k].clone();
            insts.insert(k + 1, d);
        }
        cells.push(MCell { shapes, insts });
    }
    cells
}
fn model_flatten(cells: &[MCell], c: usize, a: &Affine, out: &mut Vec<(usize, MShape)>, depth: &mut usize, d: usize) {
    *depth = (*depth).max(d);
    for (l, s) in &cells[c].shapes {
        out.push((*l, s.map(a)));
    }
    for (t, pl) in &cells[c].insts {
        model_flatten(cells, *t, &a.then_child(&pl.affine()), out, depth, d + 1);
    }
}
fn flatten_case(src: &mut Src, ctx: &mut Ctx) -> Result<(), String> {
    let cells = gen_hierarchy(src);
    let mut layers = raw::Layers::default();
    let keys: Vec<raw::LayerKey> = (0..3).map(|i| layers.add(raw::Layer::from_num(i as i16 + 1))).collect();
    let mut ptrs: Vec<raw::utils::Ptr<raw::Cell>> = vec![];
    for (i, c) in cells.iter().enumerate() {
        // cell names need not be unique (a wrapper named like the cell it wraps, layouts left unnamed): cells
        // are told apart by identity
        let name = match (c.shapes.len() + 2 * c.insts.len()) % 5 {
            3 => "shared".to_string(),
            4 => String::new(),
            _ => format!("c{}", i),
        };
        let mut layout = raw::Layout { name, ..Default::default() };
        for (l, s) in &c.shapes {
            // (a third of the shapes carry a net name, by content: where a shape lands does not depend on it)
            let net = match (l + layout.elems.len() + i) % 3 { 0 => Some(format!("n{}", l)), _ => None };
            layout.elems.push(raw::Element { net, layer: keys[*l], purpose: raw::LayerPurpose::Drawing, inner: s.to_raw() });
        }
        for (k, (t, pl)) in c.insts.iter().enumerate() {
            // the same orientation spelled with whole turns added or taken away (-90 for 270, 450 for 90, -360 for 0), by content
            let turns = [0.0, 0.0, -1.0, 1.0, 0.0, -2.0][(k + i + (pl.loc.0.unsigned_abs() as usize)) % 6];
            let angle = if pl.o.rot == 0 && pl.none_angle { None } else { Some(pl.o.angle() + 360.0 * turns) };
            layout.insts.push(raw::Instance { inst_name: format!("i{}", k), cell: ptrs[*t].clone(), loc: pt(pl.loc), reflect_vert: pl.o.refl, angle });
        }
        let mut cell = raw::Cell::from(layout);
        // a cell may have an abstract view beside its layout: flattening is about the layout alone
        if (i + c.shapes.len() + c.insts.len()) % 3 == 0 {
            cell.abs = Some(raw::Abstract::new(format!("c{}", i), raw::Polygon { points: vec![pt((0, 0)), pt((10, 0)), pt((10, 10)), pt((0, 10))] }));
        }
        ptrs.push(raw::utils::Ptr::new(cell));
    }
    let top = cells.len() - 1;
    let mut want = vec![];
    let mut depth = 0;
    model_flatten(&cells, top, &Affine::identity(), &mut want, &mut depth, 0);
    ctx.label(&format!("hierarchy depth {}", depth));
    let has_rr = cells.iter().any(|c| c.insts.iter().any(|(_, p)| p.o.refl && p.o.rot % 2 == 1));
    if has_rr && depth >= 1 {
        ctx.nontrivial(hash_of(&cells));
    }
    ctx.sample("cell hierarchy", || format!("{:?}", cells));
    let cell = ptrs[top].read().unwrap();
    let flat = cell.layout.as_ref().unwrap().flatten().map_err(|e| format!("flatten failed: {:?}", e))?;
    // flattening reads the hierarchy: a second call on the same layout gives the same elements
    match cell.layout.as_ref().unwrap().flatten() {
        Ok(again) if again.len() == flat.len() && again.iter().zip(flat.iter()).all(|(a, b)| a.inner == b.inner && a.layer == b.layer) => {}
        Ok(again) => return Err(format!("flatten() called twice on one layout gave {} and then {} elements (or different ones)", flat.len(), again.len())),
        Err(e) => return Err(format!("flatten() succeeded, then failed when called again: {:?}", e)),
    }
    let mut got: Vec<(usize, MShape)> = flat.iter().map(|e| (keys.iter().position(|k| *k == e.layer).unwrap_or(99), MShape::from_raw(&e.inner))).collect();
    // mirror images: a polygon under an odd number of reflections must flip its orientation —
    // implied by point-wise equality, which is what we compare (multisets per layer)
    let _ = MShape::orientation_sign;
    got.sort();
    want.sort();
    if got != want {
        let miss: Vec<_> = want.iter().filter(|w| !got.contains(w)).take(2).collect();
        let extra: Vec<_> = got.iter().filter(|g| !want.contains(g)).take(2).collect();
        return Err(format!("flatten() of the top cell differs from the composition of its placements: {} shapes expected, {} returned; expected but missing {:?}; returned but not expected {:?}; hierarchy {:?}", want.len(), got.len(), miss, extra, cells));
    }
    Ok(())
}

// ---- (e) general angles -----------------------------------------------------------------------------
fn general_case(src: &mut Src, ctx: &mut Ctx) -> Result<(), String> {
    let depth = src.usize_in(1, 3);
    let mut t = Transform::identity();
    // reference: compose in f64 from first principles (reflect, rotate ccw, translate)
    let mut ra = [[1.0f64, 0.0], [0.0, 1.0]];
    let mut rb = [0.0f64, 0.0];
    let mut desc = vec![];
    // the same chain built from the library's own elementary transforms: translate ∘ rotate ∘ reflect per level
    let mut te = Transform::identity();
    for _ in 0..depth {
        let angle = match src.weighted(&[3, 2, 2]) {
            0 => 0.25 * src.below(1440) as f64,
            1 => src.below(18_000_000) as f64 / 10_000.0 - 720.0, // [-720, 1080): angles are not confined to one turn
            _ => *src.pick(&[0.0, 90.0, 180.0, 270.0, 360.0, -90.0, 45.0, 30.0, 450.0, -180.0, 540.0, -135.0, 480.0, 720.0, -360.0, -270.0, 630.0, 225.0, -0.0, -1e-14, -1e-15, 1e-14, -1e-100, -f64::MIN_POSITIVE, f64::MIN_POSITIVE, 90.0 - 90.00000000000001, 89.99999999999999, 360.00000000000006, 10.0, 80.0, 100.0, 170.0]),
        };
        let refl = src.bool();
        let loc = (src.signed(100_000), src.signed(100_000));
        desc.push((angle, refl, loc));
        t = Transform::cascade(&t, &Transform::from_instance(&pt(loc), refl, Some(angle)));
        let mut e = Transform::identity();
        if refl {
            e = Transform::cascade(&Transform::reflect_vert(), &e);
        }
        e = Transform::cascade(&Transform::rotate(angle), &e);
        e = Transform::cascade(&Transform::translate(loc.0 as f64, loc.1 as f64), &e);
        te = Transform::cascade(&te, &e);
        let (s, c) = (angle.to_radians().sin(), angle.to_radians().cos());
        let m = if refl { [[c, s], [s, -c]] } else { [[c, -s], [s, c]] };
        // (ra, rb) := (ra, rb) ∘ (m, loc)
        let nb = [ra[0][0] * loc.0 as f64 + ra[0][1] * loc.1 as f64 + rb[0], ra[1][0] * loc.0 as f64 + ra[1][1] * loc.1 as f64 + rb[1]];
        let na = [
            [ra[0][0] * m[0][0] + ra[0][1] * m[1][0], ra[0][0] * m[0][1] + ra[0][1] * m[1][1]],
            [ra[1][0] * m[0][0] + ra[1][1] * m[1][0], ra[1][0] * m[0][1] + ra[1][1] * m[1][1]],
        ];
        ra = na;
        rb = nb;
    }
    ctx.nontrivial(hash_of(&format!("{:?}", desc)));
    ctx.sample("general angles", || format!("(angle, reflect, loc) chain {:?}", desc));
    for _ in 0..8 {
        let p = (src.signed(10_000), src.signed(10_000));
        let got = tp(pt(p).transform(&t));
        let wx = ra[0][0] * p.0 as f64 + ra[0][1] * p.1 as f64 + rb[0];
        let wy = ra[1][0] * p.0 as f64 + ra[1][1] * p.1 as f64 + rb[1];
        if (got.0 as f64 - wx).abs() > 0.5 + 1e-6 || (got.1 as f64 - wy).abs() > 0.5 + 1e-6 {
            return Err(format!("general-angle chain {:?}: point {:?} lands at {:?}, the real-arithmetic image is ({:.4},{:.4}) (tolerance 0.5)", desc, p, got, wx, wy));
        }
        let el = tp(pt(p).transform(&te));
        if (el.0 as f64 - wx).abs() > 0.5 + 1e-6 || (el.1 as f64 - wy).abs() > 0.5 + 1e-6 {
            return Err(format!("general-angle chain {:?}: translate∘rotate∘reflect built from the library's elementary transforms moves {:?} to {:?}, the real-arithmetic image is ({:.4},{:.4}) (tolerance 0.5)", desc, p, el, wx, wy));
        }
    }
    Ok(())
}

// ---- (f) general angles through Layout::flatten ----------------------------------------------------------------
/// A chain of cells, each instantiating the one below at a general angle: flattening the top cell must
/// put every point of the leaf's polygon within half a unit of its exact image under the composed map
/// (the composition is evaluated once; rounding at every level would drift).
fn general_flatten_case(src: &mut Src, ctx: &mut Ctx) -> Result<(), String> {
    let depth = src.usize_in(1, 4);
    let pts: Vec<P> = (0..src.usize_in(3, 6)).map(|_| (src.signed(20_000), src.signed(20_000))).collect();
    let mut cells: Vec<Ptr<raw::Cell>> = vec![];
    let mut leaf = raw::Layout { name: "g0".into(), ..Default::default() };
    let layers = Ptr::new(raw::Layers::default());
    let key = layers.write().unwrap().add(raw::Layer::from_pairs(1, &[(0, raw::LayerPurpose::Drawing)]).map_err(|e| format!("{:?}", e))?);
    leaf.elems.push(raw::Element { net: None, layer: key, purpose: raw::LayerPurpose::Drawing, inner: raw::Shape::Polygon(raw::Polygon { points: pts.iter().map(|p| pt(*p)).collect() }) });
    cells.push(Ptr::new(raw::Cell::from(leaf)));
    // reference: compose in f64, outermost placement first
    let mut levels = vec![];
    for k in 1..=depth {
        let angle = match src.weighted(&[3, 1, 1]) {
            0 => 0.25 * src.below(1440) as f64,
            1 => src.below(18_000_000) as f64 / 10_000.0 - 720.0, // [-720, 1080): angles are not confined to one turn
            _ => *src.pick(&[30.0, 45.0, 60.0, 135.0, 33.3, 90.0, 270.0, -30.0, -90.0, -270.0, -45.0, 405.0, -0.25, -0.0, -1e-14, -1e-15, -1e-100, -f64::MIN_POSITIVE, 90.0 - 90.00000000000001, 10.0, 80.0, 100.0, 170.0]),
        };
        let refl = src.bool();
        let loc = (src.signed(50_000), src.signed(50_000));
        levels.push((angle, refl, loc));
        let mut lay = raw::Layout { name: format!("g{}", k), ..Default::default() };
        lay.insts.push(raw::Instance { inst_name: "i".into(), cell: cells[k - 1].clone(), loc: pt(loc), reflect_vert: refl, angle: Some(angle) });
        cells.push(Ptr::new(raw::Cell::from(lay)));
    }
    ctx.nontrivial(hash_of(&format!("{:?}{:?}", levels, pts)));
    ctx.label(&format!("general-angle hierarchy of depth {}", depth));
    ctx.sample("general-angle hierarchy", || format!("polygon {:?} under placements (innermost first) {:?}", pts, levels));
    let top = cells.last().unwrap().read().unwrap();
    let flat = top.layout.as_ref().unwrap().flatten().map_err(|e| format!("flatten failed: {:?}", e))?;
    if flat.len() != 1 {
        return Err(format!("flatten returned {} shapes for a hierarchy holding one polygon", flat.len()));
    }
    let got: Vec<P> = match &flat[0].inner {
        raw::Shape::Polygon(p) => p.points.iter().map(|q| tp(q.clone())).collect(),
        other => return Err(format!("flatten turned the polygon into {:?}", other)),
    };
    if got.len() != pts.len() {
        return Err(format!("flatten returned {} points for a polygon of {}", got.len(), pts.len()));
    }
    for (i, p) in pts.iter().enumerate() {
        // innermost placement applies first
        let (mut x, mut y) = (p.0 as f64, p.1 as f64);
        for (angle, refl, loc) in &levels {
            if *refl {
                y = -y;
            }
            let (s, c) = (angle.to_radians().sin(), angle.to_radians().cos());
            let (nx, ny) = (c * x - s * y, s * x + c * y);
            x = nx + loc.0 as f64;
            y = ny + loc.1 as f64;
        }
        if (got[i].0 as f64 - x).abs() > 0.5 + 1e-6 || (got[i].1 as f64 - y).abs() > 0.5 + 1e-6 {
            return Err(format!("flatten: polygon point {:?} under placements (innermost first) {:?} lands at {:?}, the real-arithmetic image is ({:.4},{:.4}) (tolerance 0.5)", p, levels, got[i], x, y));
        }
    }
    Ok(())
}

fn run(run: &mut Run) {
    run.rule("Placement chains over the eight right-angle orientations x 7 offsets per level, every point of a 9x9 grid: depth 1-3 exhaustive in every tier, depth 4 exhaustive in thorough (sampled in quick); random chains with large offsets; random raw cell hierarchies (depth <= 4, rect/polygon/path shapes) through Layout::flatten; general angles against real arithmetic with half-unit tolerance. Non-trivial = chain/hierarchy containing a reflected placement rotated by 90 or 270 degrees; distinct by hash of the chain.");
    run.assume("R-geom integer matrices are the meaning of 'reflect about the x-axis, rotate counter-clockwise, translate'");
    run.min_nontrivial = 100;
    for d in 1..=3 {
        run.enumerate(&format!("chains-depth{}", d), chains_total(d), &chain_case(d));
    }
    match run.tier {
        Tier::Thorough => run.enumerate("chains-depth4", chains_total(4), &chain_case(4)),
        Tier::Quick => {}
    }
    run.explore("random-chains", run.tier.pick(400_000, 4_000_000), 40, &random_chain_case);
    // the same, each case in a thread of its own (per-thread state of the code starts from scratch)
    run.explore_fresh("random-chains", run.tier.pick(3_000, 40_000), 40, &random_chain_case);
    run.explore("flatten", run.tier.pick(250_000, 3_000_000), 400, &flatten_case);
    // the same, each case in a thread of its own (per-thread state of the code starts from scratch)
    run.explore_fresh("flatten", run.tier.pick(3_000, 40_000), 400, &flatten_case);
    run.explore("general-angles", run.tier.pick(500_000, 6_000_000), 60, &general_case);
    // the same, each case in a thread of its own (per-thread state of the code starts from scratch)
    run.explore_fresh("general-angles", run.tier.pick(3_000, 40_000), 60, &general_case);
    run.explore("general-angles-flatten", run.tier.pick(100_000, 1_000_000), 60, &general_flatten_case);
}
fn case(sub: &str) -> Option<Box<CaseFn<'static>>> {
    match sub {
        "chains-depth1" => Some(Box::new(chain_case(1))),
        "chains-depth2" => Some(Box::new(chain_case(2))),
        "chains-depth3" => Some(Box::new(chain_case(3))),
        "chains-depth4" => Some(Box::new(chain_case(4))),
        "random-chains" => Some(Box::new(random_chain_case)),
        "flatten" => Some(Box::new(flatten_case)),
        "general-angles" => Some(Box::new(general_case)),
        "general-angles-flatten" => Some(Box::new(general_flatten_case)),
        _ => None,
    }
}
fn render(sub: &str, choices: &[u32]) -> Option<String> {
    let mut src = Src::new(choices);
    match sub {
        "chains-depth1" | "chains-depth2" | "chains-depth3" | "chains-depth4" => {
            let d = sub.as_bytes()[sub.len() - 1] - b'0';
            Some(format!("{:?}", chain_of(d as usize, src.u64())))
        }
        "random-chains" => Some(format!("{:?}", random_chain(&mut src))),
        "flatten" => Some(format!("{:?}", gen_hierarchy(&mut src))),
        _ => None,
    }
}
