//! C04 — reading a LEF file yields every statement in it, with exact values.
//! C05 — LEF write-then-read returns the library that was written.
use super::PropDef;
use crate::engine::{child::scratch_path, hash_of, CaseFn, Ctx, Run, Src};
use crate::gen::gds::first_diff;
use crate::gen::lef::*;
use lef21::*;

pub fn def_c04() -> PropDef {
    PropDef { id: "C04", level: "exploration", run: run_c04, case: case_c04, render: render_c04 }
}
pub fn def_c05() -> PropDef {
    PropDef { id: "C05", level: "exploration", run: run_c05, case: case_c05, render: render_c04 }
}

pub fn open_text(txt: &str) -> LefResult<LefLibrary> {
    let path = scratch_path("lef");
    std::fs::write(&path, txt).map_err(|e| LefError::Str(e.to_string()))?;
    let r = LefLibrary::open(&path);
    let _ = std::fs::remove_file(&path);
    r
}
fn has_pin_geometry(lib: &LefLibrary) -> bool {
    lib.macros.iter().any(|m| m.pins.iter().any(|p| p.ports.iter().any(|q| q.layers.iter().any(|l| !l.geometries.is_empty()))))
}
fn classify(lib: &LefLibrary, ctx: &mut Ctx) {
    let c = |b: bool, s: &str, ctx: &mut Ctx| {
        if b {
            ctx.label(s)
        }
    };
    c(!lib.sites.is_empty(), "has SITE", ctx);
    c(!lib.vias.is_empty(), "has VIA", ctx);
    c(!lib.extensions.is_empty(), "has BEGINEXT", ctx);
    c(!lib.property_definitions.is_empty(), "has PROPERTYDEFINITIONS", ctx);
    c(lib.macros.iter().any(|m| !m.properties.is_empty()), "macro PROPERTY", ctx);
    c(lib.macros.iter().any(|m| m.pins.iter().any(|p| !p.properties.is_empty())), "pin PROPERTY", ctx);
    c(lib.macros.iter().any(|m| m.density.is_some()), "has DENSITY", ctx);
    c(lib.macros.iter().any(|m| m.pins.iter().any(|p| !p.antenna_attrs.is_empty())), "antenna attributes", ctx);
    c(lib.macros.iter().any(|m| !m.obs.is_empty()), "has OBS", ctx);
    c(lib.units.as_ref().map(|u| u.database_microns.is_some()).unwrap_or(false), "DATABASE MICRONS", ctx);
    c(lib.macros.iter().any(|m| m.obs.iter().chain(m.pins.iter().flat_map(|p| p.ports.iter().flat_map(|q| q.layers.iter()))).any(|l| l.geometries.iter().any(|g| matches!(g, LefGeometry::Iterate { .. })))), "ITERATE geometry", ctx);
    // which optional statements occur at all (from the value's Debug rendering: `field: Some(`)
    {
        let dbg = format!("{:?}", lib);
        for f in [
            "names_case_sensitive", "no_wire_extension_at_pin", "bus_bit_chars", "divider_char", "clearance_measure", "manufacturing_grid", "use_min_spacing", "foreign", "origin", "size", "symmetry", "site", "source", "eeq", "fixed_mask", "orient", "direction", "use_",
            "shape", "antenna_model", "taper_rule", "supply_sensitivity", "ground_sensitivity", "must_join", "net_expr", "except_pg_net", "spacing", "width", "resistance_ohms", "rowcol", "offset", "pattern", "time_ns", "capacitance_pf", "power_mw", "current_ma", "voltage_volts", "frequency_mhz", "mask",
        ] {
            if dbg.contains(&format!("{}: Some(", f)) {
                ctx.label(&format!("field present: {}", f));
            }
        }
        for w in ["Generated(", "Fixed(", "Polygon(", "Path(", "Rect(", "Iterate", "Cover", "Ring", "Block", "Pad", "Core", "EndCap", "Tristate", "Feedthru", "Abutment"] {
            if dbg.contains(w) {
                ctx.label(&format!("value present: {}", w.trim_end_matches('(')));
            }
        }
    }
    if let Some(v) = &lib.version {
        ctx.label(&format!("VERSION {}", v));
    } else {
        ctx.label("no VERSION");
    }
}
fn render_opts(src: &mut Src, lib: &LefLibrary) -> RenderOpts {
    let ge56 = lib.version.map(|v| v >= LefDecimal::new(56, 1)).unwrap_or(true);
    RenderOpts { vary: true, nonascii_comments: true, permute: true, end_library: if ge56 { src.bool() } else { true } }
}
fn c04_case(src: &mut Src, ctx: &mut Ctx) -> Result<(), String> {
    crate::gen::lef::set_big_numbers(true);
    let lib = gen_lef(src, &LefGenOpts::default());
    crate::gen::lef::set_big_numbers(false);
    classify(&lib, ctx);
    for k in 0..3 {
        let o = render_opts(src, &lib);
        let (txt, kinds) = render(&lib, src, o);
        if has_pin_geometry(&lib) && kinds.count_ones() >= 2 {
            ctx.nontrivial(hash_of(&txt));
        }
        for (bit, name) in [(K_TRAILING_ZEROS, "number with trailing zeros"), (K_LEADING_DOT, "number with leading dot"), (K_REDUNDANT_POINT, "integer written with .0"), (K_CASE, "mixed-case keyword"), (K_COMMENT, "comment"), (K_NONASCII, "non-ASCII comment"), (K_PERMUTED, "statement order permuted")] {
            if kinds & bit != 0 {
                ctx.label(&format!("lexical: {}", name));
            }
        }
        if !o.end_library {
            ctx.label("no END LIBRARY (version >= 5.6)");
        }
        if k == 0 {
            ctx.sample("rendered LEF", || txt.clone());
        }
        c04_check(&lib, &txt)?;
    }
    Ok(())
}
fn c04_check(lib: &LefLibrary, txt: &str) -> Result<(), String> {
    match open_text(txt) {
        Err(e) => Err(format!("valid LEF text rejected: {}\n--- text ---\n{}", short(&format!("{:?}", e), 300), short(txt, 1500))),
        Ok(got) => {
            if &got != lib {
                Err(format!("library read differs from the one rendered; {}\n--- text ---\n{}", first_diff(&format!("{:?}", lib), &format!("{:?}", got)), short(txt, 1500)))
            } else {
                Ok(())
            }
        }
    }
}
fn short(s: &str, n: usize) -> String {
    if s.len() <= n {
        return s.to_string();
    }
    let mut cut = n;
    while !s.is_char_boundary(cut) {
        cut -= 1;
    }
    format!("{}…", &s[..cut])
}
/// negative variants: version-gated statements under the wrong version, missing END LIBRARY < 5.6
fn c04_negative(src: &mut Src, ctx: &mut Ctx) -> Result<(), String> {
    crate::gen::lef::set_big_numbers(true);
    let mut lib = gen_lef(src, &LefGenOpts { max_macros: 1, ..Default::default() });
    crate::gen::lef::set_big_numbers(false);
    let kind = src.below(3);
    let plain = RenderOpts { vary: false, nonascii_comments: false, permute: false, end_library: true };
    let (txt, what) = match kind {
        0 => {
            let v = *src.pick(&[(53i64, 1u32), (54, 1), (55, 1)]);
            lib.version = Some(LefDecimal::new(v.0, v.1));
            lib.names_case_sensitive = None;
            for m in lib.macros.iter_mut() {
                m.source = None;
            }
            (render(&lib, src, RenderOpts { end_library: false, ..plain }).0, "VERSION < 5.6 without END LIBRARY")
        }
        1 => {
            let v = *src.pick(&[(55i64, 1u32), (56, 1), (57, 1), (58, 1)]);
            lib.version = Some(LefDecimal::new(v.0, v.1));
            lib.names_case_sensitive = Some(LefOnOff::On);
            (render(&lib, src, plain).0, "NAMESCASESENSITIVE under VERSION > 5.4")
        }
        _ => {
            let v = *src.pick(&[(55i64, 1u32), (56, 1), (57, 1), (58, 1)]);
            lib.version = Some(LefDecimal::new(v.0, v.1));
            lib.names_case_sensitive = None;
            if lib.macros.is_empty() {
                lib.macros.push(LefMacro::new("m1"));
            }
            lib.macros[0].source = Some(LefDefSource::User);
            (render(&lib, src, plain).0, "MACRO SOURCE under VERSION > 5.4")
        }
    };
    ctx.label(&format!("negative: {}", what));
    ctx.nontrivial(hash_of(&txt));
    match open_text(&txt) {
        Err(_) => Ok(()),
        Ok(_) => Err(format!("{}: accepted, an error is required\n--- text ---\n{}", what, short(&txt, 800))),
    }
}
/// hand-written texts; also the regression inputs for repaired defects
fn literal_texts() -> Vec<(&'static str, &'static str, LefLibrary)> {
    let mut v = vec![];
    let mut lib = LefLibrary::new();
    lib.units = Some(LefUnits { database_microns: Some(LefDbuPerMicron(1000)), ..Default::default() });
    v.push(("DATABASE MICRONS spelled 1000.0", "UNITS DATABASE MICRONS 1000.0 ; END UNITS END LIBRARY", lib.clone()));
    v.push(("DATABASE MICRONS spelled 1000.00", "UNITS DATABASE MICRONS 1000.00 ; END UNITS END LIBRARY", lib.clone()));
    let mut lib2 = LefLibrary::new();
    let mut m = LefMacro::new("m1");
    m.properties = vec![LefProperty { name: "p1".into(), value: "v1".into() }, LefProperty { name: "p2".into(), value: "2.5".into() }];
    let mut pin = LefPin { name: "a".into(), ..Default::default() };
    pin.properties = vec![LefProperty { name: "q".into(), value: "\"s t\"".into() }];
    m.pins.push(pin);
    lib2.macros.push(m);
    v.push(("PROPERTY on macro and pin", "MACRO m1 PROPERTY p1 v1 p2 2.5 ; PIN a PROPERTY q \"s t\" ; END a END m1 END LIBRARY", lib2.clone()));
    let mut lib3 = LefLibrary::new();
    let mut m3 = LefMacro::new("m2");
    m3.size = Some((LefDecimal::new(15, 1), LefDecimal::new(2, 0)));
    lib3.macros.push(m3);
    v.push(("non-ASCII comment before tokens", "# größe 中文 😀\nMACRO m2 # é\n SIZE 1.5 BY 2 ; END m2 END LIBRARY", lib3));
    v
}
fn c04_literal(src: &mut Src, ctx: &mut Ctx) -> Result<(), String> {
    let l = literal_texts();
    let i = src.u64() as usize % l.len();
    ctx.label(&format!("literal: {}", l[i].0));
    ctx.nontrivial(hash_of(&l[i].1));
    c04_check(&l[i].2, l[i].1).map_err(|e| format!("[{}] {}", l[i].0, e))
}
fn run_c04(run: &mut Run) {
    run.rule("G-lef library values (header statements, UNITS, PROPERTYDEFINITIONS, BEGINEXT, SITEs, fixed/generated VIAs, MACROs with every class, FOREIGN, ORIGIN, SIZE, SYMMETRY, SITE, SOURCE, EEQ, FIXEDMASK, DENSITY, PROPERTY, OBS, PINs with all attributes, PORTs, LAYER geometries with MASK and ITERATE, VIA placements), each rendered three times by an independent renderer with random statement order, whitespace/newlines, ASCII and non-ASCII comments, keyword case, number spellings, versions 5.3-5.8 or none, END LIBRARY present or absent; negative variants must be errors. Non-trivial = library with a pin geometry, rendered with >= 2 kinds of lexical variation; distinct by hash of the text.");
    run.assume("tokens are whitespace-separated, names start with an ASCII letter and are not keywords, no '+'/exponent spellings, comments not inside BEGINEXT, one WIDTH per LAYER block, VERSION first");
    run.min_nontrivial = 300;
    let n = literal_texts().len();
    run.literals("literals", &(0..n as u32).map(|i| vec![0, i]).collect::<Vec<_>>(), &c04_literal);
    run.explore("render-read", run.tier.pick(80_000, 1_000_000), 2500, &c04_case);
    // the same, each case in a thread of its own (per-thread state of the code starts from scratch)
    run.explore_fresh("render-read", run.tier.pick(3_000, 40_000), 2500, &c04_case);
    run.explore("negative", run.tier.pick(20_000, 200_000), 1200, &c04_negative);
}
fn case_c04(sub: &str) -> Option<Box<CaseFn<'static>>> {
    match sub {
        "literals" => Some(Box::new(c04_literal)),
        "render-read" => Some(Box::new(c04_case)),
        "negative" => Some(Box::new(c04_negative)),
        _ => None,
    }
}
fn render_c04(sub: &str, choices: &[u32]) -> Option<String> {
    let mut src = Src::new(choices);
    match sub {
        "render-read" | "write-read" => {
            let lib = gen_lef(&mut src, &LefGenOpts::default());
            let o = render_opts(&mut src, &lib);
            Some(render(&lib, &mut src, o).0)
        }
        _ => None,
    }
}

// ---------------------------------------------------------------------------------------------
// C05
// ---------------------------------------------------------------------------------------------
fn c05_roundtrip(lib: &LefLibrary, via_save: bool) -> Result<(), String> {
    let txt = if via_save {
        let path = scratch_path("c05.lef");
        // the path already holds an older, longer file: save must replace it
        // (characters no LEF token can start with, so that anything left over cannot go unnoticed)
        let _ = std::fs::write(&path, "_/[]{}\"@\n".repeat(8000));
        let r = lib.save(&path);
        let t = std::fs::read_to_string(&path).unwrap_or_default();
        let _ = std::fs::remove_file(&path);
        r.map_err(|e| format!("save() of a library the reader produced failed: {:?}", e))?;
        t
    } else {
        lib.to_string().map_err(|e| format!("to_string() of a library the reader produced failed: {:?}", e))?
    };
    // writing is a function of the library: a second call on the same value gives the same text
    if let Ok(again) = lib.to_string() {
        if !via_save && again != txt {
            return Err(format!("to_string() called twice on one library gave two texts; {}", first_diff(&txt, &again)));
        }
    }
    match open_text(&txt) {
        Err(e) => Err(format!("text written by the LEF writer is rejected by the reader: {}\n--- written ---\n{}", short(&format!("{:?}", e), 300), short(&txt, 1500))),
        Ok(back) => {
            if &back != lib {
                Err(format!("library read back differs from the one written; {}\n--- written ---\n{}", first_diff(&format!("{:?}", lib), &format!("{:?}", back)), short(&txt, 1500)))
            } else {
                Ok(())
            }
        }
    }
}
fn c05_case(src: &mut Src, ctx: &mut Ctx) -> Result<(), String> {
    crate::gen::lef::set_big_numbers(true);
    let lib = gen_lef(src, &LefGenOpts::default());
    crate::gen::lef::set_big_numbers(false);
    let o = render_opts(src, &lib);
    let (txt, _) = render(&lib, src, o);
    // the domain is the image of the reader: whatever it returns for the rendered text
    let read = match open_text(&txt) {
        Err(_) => {
            ctx.refused("reader rejected the rendered text (C04's business)");
            return Ok(());
        }
        Ok(l) => l,
    };
    classify(&read, ctx);
    let rich = !read.sites.is_empty() || !read.vias.is_empty() || !read.extensions.is_empty() || !read.property_definitions.is_empty()
        || read.macros.iter().any(|m| !m.properties.is_empty() || m.density.is_some() || m.pins.iter().any(|p| p.shape.is_some() || p.antenna_model.is_some() || !p.antenna_attrs.is_empty() || p.taper_rule.is_some() || p.must_join.is_some() || p.net_expr.is_some() || !p.properties.is_empty()));
    if rich {
        ctx.nontrivial(hash_of(&format!("{:?}", read)));
    }
    ctx.sample("library in the reader's image", || short(&format!("{:?}", read), 1200));
    let via_save = src.prob(1, 16);
    // one time in eight the writer is first asked for something it must refuse (a statement that is not legal
    // under the library's version), part of the way into the text: the call after a failed call is like any other
    if src.prob(1, 8) {
        let mut doomed = read.clone();
        doomed.version = Some(LefDecimal::new(58, 1));
        match src.below(3) {
            0 => doomed.names_case_sensitive = Some(LefOnOff::On),
            1 => {
                let mut m = LefMacro::new("doomed");
                m.source = Some(LefDefSource::User);
                doomed.macros.push(m);
            }
            _ => {
                doomed.names_case_sensitive = Some(LefOnOff::Off);
                doomed.macros.truncate(1);
            }
        }
        if doomed.to_string().is_err() {
            ctx.label("written right after a call the writer refused");
        }
        if src.bool() {
            let path = scratch_path("c05.doomed.lef");
            let _ = doomed.save(&path);
            let _ = std::fs::remove_file(&path);
        }
    }
    c05_roundtrip(&read, via_save)
}
/// version-gated statements under every version: whatever the reader accepts, the writer must emit
fn c05_gated(src: &mut Src, ctx: &mut Ctx) -> Result<(), String> {
    let i = src.u64();
    let stmt = (i / 8) % 3;
    let body = match stmt {
        0 => "NAMESCASESENSITIVE ON ;",
        1 => "NOWIREEXTENSIONATPIN OFF ;",
        _ => "MACRO m SOURCE USER ; END m",
    };
    // under each version, with no VERSION statement at all, and with the VERSION statement after the gated one
    let txt = match i % 8 {
        6 => format!("{} END LIBRARY", body),
        7 => format!("{} VERSION 5.4 ; END LIBRARY", body),
        k => {
            let v = VERSIONS[k as usize];
            format!("VERSION {} ; {} END LIBRARY", crate::gen::lef::spell_plain(&LefDecimal::new(v.0, v.1)), body)
        }
    };
    match open_text(&txt) {
        Err(_) => {
            ctx.refused("reader rejects this statement under this version");
            Ok(())
        }
        Ok(lib) => {
            ctx.label(&format!("gated statement accepted: {}", body));
            ctx.nontrivial(hash_of(&txt));
            ctx.sample("version-gated statement", || txt.clone());
            c05_roundtrip(&lib, false).map_err(|e| format!("[{}] {}", txt, e))
        }
    }
}
/// Statements the reader documents as unsupported (or may come to tolerate): today each is refused, and a
/// refusal is fine; but whatever the reader accepts is in its image, and the writer then has to carry it.
const C05_TOLERATED: &[&str] = &[
    "VIA v1 DEFAULT LAYER m1 ; RECT 0 0 1 1 ; PROPERTY p 1 ; END v1",
    "VIA v1 LAYER m1 ; RECT 0 0 1 1 ; PROPERTY p \"a b\" q 2.5 ; END v1",
    "VIA v1 VIARULE r1 ; CUTSIZE 1 1 ; LAYERS m1 v1 m2 ; CUTSPACING 1 1 ; ENCLOSURE 0 0 0 0 ; PROPERTY p 1 ; END v1",
    "VIA v1 TOPOFSTACKONLY LAYER m1 ; RECT 0 0 1 1 ; END v1",
    "VIA v1 FOREIGN f1 ; LAYER m1 ; RECT 0 0 1 1 ; END v1",
    "MACRO m OBS LAYER m1 ; VIA ITERATE 0 0 v1 DO 2 BY 2 STEP 1 1 ; END END m",
    "MACRO m EEQ m2 ; END m",
    "MACRO m LEQ m2 ; END m",
    "MACRO m PIN p DIRECTION OUTPUT TRISTATE ; END p END m",
    "MACRO m PIN p DIRECTION FEEDTHRU ; END p END m",
    "MACRO m PIN p LEQ q ; END p END m",
    "MACRO m PIN p ANTENNASIZE 1 ; END p END m",
    "MACRO m PIN p PORT LAYER m1 SPACING 0.1 ; RECT 0 0 1 1 ; END END p END m",
    "MACRO m PIN p PORT LAYER m1 DESIGNRULEWIDTH 0.1 ; RECT 0 0 1 1 ; END END p END m",
    "MACRO m PIN p PORT LAYER m1 EXCEPTPGNET ; RECT 0 0 1 1 ; END END p END m",
    "MACRO m SITE core 0 0 N DO 2 BY 1 STEP 1 1 ; END m",
    "MACRO m DENSITY LAYER m1 ; RECT 0 0 1 1 45.5 ; END END m",
    "MACRO m CLASS COVER BUMP ; END m",
    "MACRO m CLASS RING ; END m",
    "MACRO m CLASS PAD AREAIO ; FIXEDMASK ; END m",
    "SITE s CLASS PAD ; SIZE 1 BY 1 ; ROWPATTERN a N b FS ; END s",
    "MANUFACTURINGGRID 0.005 ;",
    "MANUFACTURINGGRID 0 ;",
    "USEMINSPACING OBS ON ;",
    "CLEARANCEMEASURE EUCLIDEAN ;",
    "MAXVIASTACK 4 ;",
    "FIXEDMASK ; MACRO m END m",
    "PROPERTYDEFINITIONS MACRO p STRING \"x\" ; PIN q REAL RANGE 0 1 2.5 ; LIBRARY r INTEGER 3 ; END PROPERTYDEFINITIONS",
    "LAYER m1 TYPE ROUTING ; END m1",
    "VIARULE r1 GENERATE LAYER m1 ; ENCLOSURE 0 0 ; END r1",
    "NONDEFAULTRULE n1 END n1",
    "UNITS TIME NANOSECONDS 2.5 ; CAPACITANCE PICOFARADS 0.001 ; DATABASE MICRONS 2000 ; END UNITS",
    "UNITS DATABASE MICRONS 2000.0 ; END UNITS",
    "BEGINEXT \"t\" CREATOR \"x y\" ; DATE \"d\" ENDEXT",
    "DIVIDERCHAR \":\" ; BUSBITCHARS \"<>\" ;",
];
fn c05_tolerated(src: &mut Src, ctx: &mut Ctx) -> Result<(), String> {
    let i = src.u64() as usize;
    let v = VERSIONS[i % 6];
    let body = C05_TOLERATED[(i / 6) % C05_TOLERATED.len()];
    let txt = format!("VERSION {} ; {} END LIBRARY", crate::gen::lef::spell_plain(&LefDecimal::new(v.0, v.1)), body);
    match open_text(&txt) {
        Err(_) => {
            ctx.refused("reader rejects this statement");
            Ok(())
        }
        Ok(lib) => {
            ctx.label(&format!("accepted: {}", short(body, 60)));
            ctx.nontrivial(hash_of(&txt));
            ctx.sample("accepted statement", || txt.clone());
            c05_roundtrip(&lib, false).map_err(|e| format!("[{}] {}", txt, e))
        }
    }
}
fn c05_literal(src: &mut Src, ctx: &mut Ctx) -> Result<(), String> {
    let texts = [
        "SITE core1 CLASS CORE ; SYMMETRY X Y ; SIZE 0.46 BY 2.72 ; END core1 END LIBRARY",
        "MACRO m1 PROPERTY p1 v1 p2 2.5 ; PIN a PROPERTY q \"s t\" ; END a END m1 END LIBRARY",
        "VERSION 5.8 ; NOWIREEXTENSIONATPIN ON ; END LIBRARY",
        "BEGINEXT \"tag\" a 1.5 ; \"x y\" ENDEXT END LIBRARY",
    ];
    let i = src.u64() as usize % texts.len();
    let lib = open_text(texts[i]).map_err(|e| format!("literal text rejected: {:?}", e))?;
    ctx.nontrivial(hash_of(&texts[i]));
    c05_roundtrip(&lib, false).map_err(|e| format!("[{}] {}", texts[i], e))
}
/// The lefrw binary (read a LEF file, write it back) must behave like open + save, also when the output path names the input file.
fn c05_lefrw(src: &mut Src, ctx: &mut Ctx) -> Result<(), String> {
    let bin = match std::env::var("VERIF_LEFRW") {
        Ok(b) if std::path::Path::new(&b).exists() => b,
        _ => {
            ctx.excluded("lefrw binary not built");
            return Ok(());
        }
    };
    crate::gen::lef::set_big_numbers(true);
    let lib = gen_lef(src, &LefGenOpts::default());
    crate::gen::lef::set_big_numbers(false);
    let o = render_opts(src, &lib);
    let (txt, _) = render(&lib, src, o);
    let inp = scratch_path("lefrw.in.lef");
    // one run in four rewrites the file in place: the output path is the input path, spelled the same or through `/./`
    let outp = match src.below(8) {
        0 => inp.clone(),
        1 => {
            let p = std::path::Path::new(&inp);
            match (p.parent(), p.file_name()) {
                (Some(d), Some(f)) => format!("{}/./{}", d.to_string_lossy(), f.to_string_lossy()),
                _ => inp.clone(),
            }
        }
        _ => scratch_path("lefrw.out.lef"),
    };
    std::fs::write(&inp, &txt).map_err(|e| e.to_string())?;
    let status = std::process::Command::new(&bin).arg(&inp).arg(&outp).stdout(std::process::Stdio::null()).stderr(std::process::Stdio::null()).status().map_err(|e| format!("cannot run lefrw: {}", e))?;
    let written = std::fs::read_to_string(&outp).ok();
    let _ = std::fs::remove_file(&inp);
    let _ = std::fs::remove_file(&outp);
    ctx.nontrivial(hash_of(&txt));
    ctx.sample("lefrw input", || short(&txt, 600));
    match open_text(&txt) {
        Err(_) => {
            if status.success() {
                return Err(format!("lefrw exited successfully on a text the reader rejects:\n{}", short(&txt, 600)));
            }
            Ok(())
        }
        Ok(read) => {
            if !status.success() {
                return Err(format!("lefrw failed ({:?}) on a text the reader accepts:\n{}", status.code(), short(&txt, 600)));
            }
            let written = written.ok_or("lefrw succeeded without writing its output file")?;
            let back = open_text(&written).map_err(|e| format!("lefrw output is rejected by the reader: {}\n--- written ---\n{}", short(&format!("{:?}", e), 300), short(&written, 1200)))?;
            if back != read {
                return Err(format!("lefrw output reads back differently; {}", first_diff(&format!("{:?}", read), &format!("{:?}", back))));
            }
            Ok(())
        }
    }
}
fn run_c05(run: &mut Run) {
    run.rule("The image of the reader: every library obtained by reading the rendered texts of G-lef values (versions 5.3-5.8, every construct the writer emits), plus the version-gated statements under every version (6 versions, no VERSION statement, VERSION after the statement: x 3 statements, exhaustive), three dozen statements the reader refuses today or accepts in part (under every version: whatever is accepted must be carried by the writer) and hand-written texts. Oracle: to_string()/save() succeed and reading the text back gives an equal library. Non-trivial = library with a site, via, extension, property definition, property, density or a pin attribute beyond direction/use; distinct by hash of the value.");
    run.assume("the layout of the written text is free; libraries outside the reader's image are not generated");
    run.min_nontrivial = 300;
    run.literals("literals", &(0..4u32).map(|i| vec![0, i]).collect::<Vec<_>>(), &c05_literal);
    run.enumerate("version-gated", 24, &c05_gated);
    run.enumerate("tolerated-statements", 6 * C05_TOLERATED.len() as u64, &c05_tolerated);
    run.explore("write-read", run.tier.pick(120_000, 1_500_000), 2500, &c05_case);
    // the same, each case in a thread of its own (per-thread state of the code starts from scratch)
    run.explore_fresh("write-read", run.tier.pick(3_000, 40_000), 2500, &c05_case);
    run.explore("lefrw-binary", run.tier.pick(400, 4_000), 2500, &c05_lefrw);
}
fn case_c05(sub: &str) -> Option<Box<CaseFn<'static>>> {
    match sub {
        "literals" => Some(Box::new(c05_literal)),
        "version-gated" => Some(Box::new(c05_gated)),
        "tolerated-statements" => Some(Box::new(c05_tolerated)),
        "write-read" => Some(Box::new(c05_case)),
        "lefrw-binary" => Some(Box::new(c05_lefrw)),
        _ => None,
    }
}
