//! C07 — raw layout exported to GDSII and imported back is unchanged.
use super::PropDef;
use crate::engine::{hash_of, CaseFn, Ctx, Run, Src};
use crate::gen::rawlib::*;
use crate::refmodel::geom as G;
use crate::refmodel::geom::P;
use layout21raw as raw;
use std::collections::BTreeMap;

pub fn def() -> PropDef {
    PropDef { id: "C07", level: "exploration", run, case, render }
}
fn opts() -> RawGenOpts {
    RawGenOpts { abstracts: true, pico: true, annotations: true, nets_need_label_purpose: true, nonrect_nets: true, max_cells: 5, closed_polygons: false, abs_only_cells: false, shared_purpose_numbers: true, contact_near_bend: true, instances_of_abstracts: false }
}

/// canonical shape for comparison: rectangles by normalised corners (rectangle-shaped polygons
/// count as rectangles), polygons as cyclic sequences, paths with their exact point sequence
#[derive(Clone, Debug, PartialEq, Eq, PartialOrd, Ord)]
enum Canon {
    Rect(P, P),
    Poly(Vec<P>),
    Path(Vec<P>, usize),
}
fn canon(g: &RGeom) -> Canon {
    match g {
        RGeom::Rect(a, b) => Canon::Rect((a.0.min(b.0), a.1.min(b.1)), (a.0.max(b.0), a.1.max(b.1))),
        RGeom::Poly(v) => match G::as_rect(v) {
            Some((a, b)) => Canon::Rect(a, b),
            None => Canon::Poly(G::canon_polygon(v)),
        },
        RGeom::Path(v, w) => Canon::Path(v.clone(), *w),
    }
}
type ShapeKey = (i16, i16, Canon, Option<String>);
type InstKey = (String, P, bool, i64);

fn oracle(m: &RLib, ctx: &mut Ctx) -> Result<(), String> {
    let built = build(m);
    let gds = match built.lib.to_gds() {
        Ok(g) => g,
        Err(e) => {
            let msg = format!("{:?}", e);
            let nonrect_named = m.cells.iter().any(|c| c.shapes.iter().any(|s| s.net.is_some() && !s.geom.is_rectilinear()));
            if msg.contains("No valid label location") && nonrect_named {
                // The documented search: the centre of the bounding box, then the four unit neighbours of the
                // first vertex. The refusal is accepted only if, for some named polygon, none of those lies in it.
                let hopeless = m.cells.iter().any(|c| {
                    c.shapes.iter().any(|s| match (&s.net, &s.geom) {
                        (Some(_), RGeom::Poly(v)) if !s.geom.is_rectilinear() => {
                            let (x0, x1) = (v.iter().map(|p| p.0).min().unwrap(), v.iter().map(|p| p.0).max().unwrap());
                            let (y0, y1) = (v.iter().map(|p| p.1).min().unwrap(), v.iter().map(|p| p.1).max().unwrap());
                            let mut cands = vec![(v[0].0, v[0].1 - 1), (v[0].0 - 1, v[0].1), (v[0].0, v[0].1 + 1), (v[0].0 + 1, v[0].1)];
                            if (x0 + x1) % 2 == 0 && (y0 + y1) % 2 == 0 {
                                cands.push(((x0 + x1) / 2, (y0 + y1) / 2));
                            } else {
                                return true; // half-integer centre: which way it is rounded is not ours to say
                            }
                            !cands.iter().any(|p| s.geom.contains(*p) == Some(true))
                        }
                        _ => false,
                    })
                });
                if hopeless {
                    ctx.refused("export refused: no label location for a non-rectilinear polygon (documented)");
                    return Ok(());
                }
                return Err(format!("export refused ({}) although, for every named polygon, the centre of its bounding box or a unit neighbour of its first vertex lies inside it", crate::gen::gds::first_diff("", &msg)));
            }
            return Err(format!("export to GDSII failed: {}", msg));
        }
    };
    let centre_out = m.cells.iter().any(|c| c.shapes.iter().any(|s| s.net.is_some() && s.geom.centre_outside()));
    let has_path = m.cells.iter().any(|c| c.shapes.iter().any(|s| matches!(s.geom, RGeom::Path(..))));
    let has_orient = m.cells.iter().any(|c| c.insts.iter().any(|i| i.o.refl || i.o.rot != 0));
    if centre_out || has_path || has_orient {
        ctx.nontrivial(hash_of(m));
    }
    if centre_out {
        ctx.label("named polygon whose bounding-box centre is outside it");
    }
    if has_path {
        ctx.label("has a path");
    }
    if has_orient {
        ctx.label("has a non-identity instance");
    }
    ctx.label(&format!("units {:?}", units_of(m.units)));
    crate::gen::rawlib::classify(m, ctx);
    ctx.sample("raw library", || format!("{:?}", m));

    // ---- directly on the exported GDS -------------------------------------------------------------
    for c in m.cells.iter().filter(|c| c.has_layout) {
        let st = gds.structs.iter().find(|s| s.name == c.name).ok_or_else(|| format!("cell {} missing from the exported GDSII", c.name))?;
        // every exported path has exactly the source points (an open path stays open)
        let mut want_paths: Vec<(i16, i16, Vec<P>, i64)> = c.shapes.iter().filter_map(|s| match &s.geom {
            RGeom::Path(v, w) => Some((m.layers[s.layer].num, m.layers[s.layer].purposes[s.purpose].0, v.clone(), *w as i64)),
            _ => None,
        }).collect();
        let mut got_paths: Vec<(i16, i16, Vec<P>, i64)> = st.elems.iter().filter_map(|e| match e {
            gds21::GdsElement::GdsPath(p) => Some((p.layer, p.datatype, p.xy.iter().map(|q| (q.x as i64, q.y as i64)).collect(), p.width.unwrap_or(-1) as i64)),
            _ => None,
        }).collect();
        want_paths.sort();
        got_paths.sort();
        if want_paths != got_paths {
            return Err(format!("cell {}: exported paths {:?} differ from the source paths {:?} (points, width, layer/datatype)", c.name, got_paths, want_paths));
        }
        // every label emitted for a named shape lies inside that shape
        let texts: Vec<(i16, i16, String, P)> = st.elems.iter().filter_map(|e| match e {
            gds21::GdsElement::GdsTextElem(t) => Some((t.layer, t.texttype, t.string.clone(), (t.xy.x as i64, t.xy.y as i64))),
            _ => None,
        }).collect();
        let named: Vec<&RShape> = c.shapes.iter().filter(|s| s.net.is_some()).collect();
        if texts.len() != named.len() {
            return Err(format!("cell {}: {} named shapes but {} text elements exported", c.name, named.len(), texts.len()));
        }
        for s in &named {
            let l = &m.layers[s.layer];
            let net = s.net.as_ref().unwrap();
            let mine: Vec<&(i16, i16, String, P)> = texts.iter().filter(|t| t.0 == l.num && Some(t.1) == l.label_num() && &t.2 == net).collect();
            if mine.is_empty() {
                return Err(format!("cell {}: no text '{}' on layer {} / label purpose {:?} exported for shape {:?}", c.name, net, l.num, l.label_num(), s.geom));
            }
            if !mine.iter().any(|t| s.geom.contains(t.3) != Some(false)) {
                return Err(format!("cell {}: the label '{}' emitted for shape {:?} lies at {:?}, outside the shape", c.name, net, s.geom, mine.iter().map(|t| t.3).collect::<Vec<_>>()));
            }
        }
    }

    // ---- import it back --------------------------------------------------------------------------------
    let back = raw::Library::from_gds(&gds, None).map_err(|e| format!("re-import of the exported GDSII failed: {:?}", e))?;
    if back.units != units_of(m.units) {
        return Err(format!("units {:?} came back as {:?}", units_of(m.units), back.units));
    }
    let layers = back.layers.read().map_err(|_| "lock")?;
    let mut cells: BTreeMap<String, raw::utils::Ptr<raw::Cell>> = BTreeMap::new();
    for c in back.cells.iter() {
        cells.insert(c.read().map_err(|_| "lock")?.name.clone(), c.clone());
    }
    let n_layout = m.cells.iter().filter(|c| c.has_layout).count();
    if cells.len() != n_layout {
        return Err(format!("{} cells exported, {} came back", n_layout, cells.len()));
    }
    for c in m.cells.iter().filter(|c| c.has_layout) {
        let cell = cells.get(&c.name).ok_or_else(|| format!("cell {} missing after the round trip", c.name))?.read().map_err(|_| "lock")?;
        let layout = cell.layout.as_ref().ok_or("no layout")?;
        let mut want_s: BTreeMap<ShapeKey, usize> = BTreeMap::new();
        for s in &c.shapes {
            let l = &m.layers[s.layer];
            *want_s.entry((l.num, l.purposes[s.purpose].0, canon(&s.geom), s.net.as_ref().map(|n| n.to_lowercase()))).or_default() += 1;
        }
        let mut got_s: BTreeMap<ShapeKey, usize> = BTreeMap::new();
        for e in &layout.elems {
            let l = layers.get(e.layer).ok_or("layer key")?;
            let p = l.num(&e.purpose).ok_or("purpose number")?;
            *got_s.entry((l.layernum, p, canon(&RGeom::from_raw(&e.inner)), e.net.clone())).or_default() += 1;
        }
        if want_s != got_s {
            let miss: Vec<_> = want_s.keys().filter(|k| got_s.get(*k) != want_s.get(*k)).take(2).collect();
            let extra: Vec<_> = got_s.keys().filter(|k| got_s.get(*k) != want_s.get(*k)).take(2).collect();
            return Err(format!("cell {}: shapes after the round trip differ (layer number, purpose number, points/width, lower-cased net). source {:?} / came back {:?}", c.name, miss, extra));
        }
        let mut want_i: BTreeMap<InstKey, usize> = BTreeMap::new();
        for i in &c.insts {
            *want_i.entry((m.cells[i.target].name.clone(), i.loc, i.o.refl, 90 * i.o.rot as i64)).or_default() += 1;
        }
        let mut got_i: BTreeMap<InstKey, usize> = BTreeMap::new();
        for i in &layout.insts {
            let a = i.angle.unwrap_or(0.0);
            if a != a.round() {
                return Err(format!("cell {}: instance angle came back as {}", c.name, a));
            }
            let t = i.cell.read().map_err(|_| "lock")?.name.clone();
            // (an angle is an orientation: whole turns more or less are the same placement)
            *got_i.entry((t, (i.loc.x as i64, i.loc.y as i64), i.reflect_vert, (a as i64).rem_euclid(360))).or_default() += 1;
        }
        if want_i != got_i {
            return Err(format!("cell {}: instances (target, location, reflection, angle) {:?} came back as {:?}", c.name, want_i, got_i));
        }
    }
    Ok(())
}
fn main_case(src: &mut Src, ctx: &mut Ctx) -> Result<(), String> {
    let mut m = gen_rawlib(src, &opts());
    // a net name may be the empty string: the shape is named all the same
    if src.prob(1, 10) {
        let named: Vec<(usize, usize)> = m.cells.iter().enumerate().flat_map(|(ci, c)| c.shapes.iter().enumerate().filter(|(_, s)| s.net.is_some()).map(move |(si, _)| (ci, si))).collect();
        if !named.is_empty() {
            let (ci, si) = named[src.index(named.len())];
            m.cells[ci].shapes[si].net = Some(String::new());
            ctx.label("a shape whose net name is empty");
        }
    }
    // the largest shapes a GDSII record can carry: a path of 8191 points, a polygon of 8190 vertices (8191 with
    // the closing point the format adds), or one fewer; far away from the cell's other shapes
    if src.prob(1, 1000) {
        if let Some(ci) = m.cells.iter().position(|c| c.has_layout) {
            let layer = src.index(m.layers.len());
            let less = src.usize_in(0, 1);
            if src.prob(1, 3) {
                let n = 8190 - less;
                // flat bottom, zigzag top: simple, n vertices
                let w = (n - 2) as i64;
                let mut v: Vec<P> = vec![(0, 1_000_000), (w, 1_000_000)];
                for k in 0..(n - 2) as i64 {
                    v.push((w - k, 1_000_010 + k % 2));
                }
                m.cells[ci].shapes.push(RShape { layer, purpose: 0, geom: RGeom::Poly(v), net: None });
            } else {
                let n = 8191 - less;
                let v: Vec<P> = (0..n as i64).map(|k| ((k + 1) / 2 * 3, 2_000_000 + k / 2 * 3)).collect();
                m.cells[ci].shapes.push(RShape { layer, purpose: 0, geom: RGeom::Path(v, 2), net: None });
            }
            ctx.label("a shape as large as one record can carry");
        }
    }
    // a library without a single cell still has its units
    if src.prob(1, 50) {
        m.cells.clear();
        m.listing.clear();
        ctx.label("library without cells");
    }
    oracle(&m, ctx)
}
/// Deep hierarchies: a chain of 30-200 cells, each instantiating the one below, listed top-down, bottom-up or
/// shuffled, on top of a small generated library (no depth is too deep for the format)
fn deep_case(src: &mut Src, ctx: &mut Ctx) -> Result<(), String> {
    let (m, label) = gen_deep(src, &opts());
    ctx.label(&label);
    oracle(&m, ctx)
}
fn run(run: &mut Run) {
    run.rule("G-rawlib layout libraries: 1-5 cells forming a DAG in shuffled listing order, instances in all eight orientations (angle None vs Some(0); now and then spelled with whole turns added or taken away, -90 for 270), rectangles with any corner order, histogram / U-shaped / 45-degree / star polygons, Manhattan paths, nets in mixed case (now and then the empty name), 1-5 layers with Drawing/Label/Pin/Obstruction/Other/Named purposes and arbitrary numbers, all four units; own shapes of a cell in disjoint windows. Oracle: export succeeds, exported paths and labels checked directly on the GDSII (exact geometry), re-import equal per cell as multisets. Non-trivial = named polygon with bounding-box centre outside, a path, or a non-identity instance; distinct by hash of the model.");
    run.assume("cell order, rectangle corner order, rectangle-shaped polygons coming back as rectangles, None vs Some(0) angles, whole turns of an angle, annotations (not exported) and instance names are not compared");
    run.assume("'No valid label location' for a library containing a named non-rectilinear polygon is the documented refusal");
    run.min_nontrivial = 200;
    run.explore("roundtrip", run.tier.pick(400_000, 5_000_000), 900, &main_case);
    // the same, each case in a thread of its own (per-thread state of the code starts from scratch)
    run.explore_fresh("roundtrip", run.tier.pick(3_000, 40_000), 900, &main_case);
    run.explore("deep-chains", run.tier.pick(6_000, 60_000), 2500, &deep_case);
}
fn case(sub: &str) -> Option<Box<CaseFn<'static>>> {
    match sub {
        "roundtrip" => Some(Box::new(main_case)),
        "deep-chains" => Some(Box::new(deep_case)),
        _ => None,
    }
}
fn render(sub: &str, choices: &[u32]) -> Option<String> {
    let mut src = Src::new(choices);
    match sub {
        "roundtrip" => Some(format!("{:?}", gen_rawlib(&mut src, &opts()))),
        _ => None,
    }
}
