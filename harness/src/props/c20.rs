//! C20 — conversions are deterministic: same input, same output, in any process.
//!
//! Metamorphic oracle: one input *description* is materialised several times in this process
//! (every materialisation builds fresh hash maps, i.e. fresh per-map hash keys) and in separate
//! child processes (fresh per-process keys); every run converts and renders a transcript that
//! preserves all sequence orders. All transcripts must be identical.
use super::PropDef;
use crate::engine::{self, child::{run_batch, ChildOutcome}, hash_of, hash_str, CaseFn, Ctx, Failure, Run, Src, Stats, SubResult};
use crate::gen::rawlib::{self, RawGenOpts};
use layout21raw as raw;
use layout21tetris as tet;

pub fn def() -> PropDef {
    PropDef { id: "C20", level: "exploration", run, case, render }
}
const K_IN_PROCESS: usize = 6;
const M_PROCESSES: usize = 3;

fn mask_dates(mut g: gds21::GdsLibrary) -> String {
    // creation timestamps are the documented exception
    g.set_all_dates(gds21::GdsDateTime { year: 100, month: 1, day: 1, hour: 0, minute: 0, second: 0 });
    format!("{:?}", g)
}
/// Transcript of a raw library: every sequence in its order; the genuinely unordered maps of the
/// result type (abstract port / blockage layer maps) sorted by layer number.
fn transcript_raw(lib: &raw::Library) -> Result<String, String> {
    use std::fmt::Write;
    let layers = lib.layers.read().map_err(|_| "lock")?;
    let lnum = |k: &raw::LayerKey| layers.get(*k).map(|l| (l.layernum, l.name.clone())).unwrap_or((-999, None));
    let mut s = format!("lib {:?} units {:?}\n", lib.name, lib.units);
    for cp in lib.cells.iter() {
        let c = cp.read().map_err(|_| "lock")?;
        writeln!(s, "cell {:?}", c.name).unwrap();
        if let Some(l) = &c.layout {
            for e in &l.elems {
                writeln!(s, " elem {:?} {:?} {:?} {:?}", lnum(&e.layer), e.purpose, e.inner, e.net).unwrap();
            }
            for i in &l.insts {
                writeln!(s, " inst {:?} -> {:?} {:?} {} {:?}", i.inst_name, i.cell.read().map_err(|_| "lock")?.name, i.loc, i.reflect_vert, i.angle).unwrap();
            }
            for a in &l.annotations {
                writeln!(s, " text {:?}", a).unwrap();
            }
        }
        if let Some(a) = &c.abs {
            writeln!(s, " abs {:?} {:?}", a.name, a.outline).unwrap();
            for p in &a.ports {
                let mut v: Vec<_> = p.shapes.iter().map(|(k, sh)| (lnum(k), sh.clone())).collect();
                v.sort_by(|x, y| x.0.cmp(&y.0));
                writeln!(s, "  port {:?} {:?}", p.net, v).unwrap();
            }
            let mut v: Vec<_> = a.blockages.iter().map(|(k, sh)| (lnum(k), sh.clone())).collect();
            v.sort_by(|x, y| x.0.cmp(&y.0));
            writeln!(s, "  blockages {:?}", v).unwrap();
        }
    }
    Ok(s)
}

/// Raw library rich in abstract views: 2-4 fully featured layers, cells with (often only) an
/// abstract whose ports and blockages span several layers.
fn gen_abstract_heavy(src: &mut Src) -> rawlib::RLib {
    use rawlib::*;
    let nl = src.usize_in(2, 4);
    // distinct Layer objects may share a layer number (as met1 68/20 and via 68/44 do in real technologies);
    // their (number, purpose number) pairs stay distinct
    let mut layers: Vec<RLayer> = vec![];
    for i in 0..nl {
        let share = i > 0 && src.prob(1, 3);
        let num = if share { layers[i - 1].num } else { 5 * i as i16 + src.below(4) as i16 };
        let o = 40 * i as i16;
        let mut purposes = vec![(o + src.below(3) as i16, RPurpose::Drawing), (o + 10 + src.below(3) as i16, RPurpose::Label), (o + 20 + src.below(3) as i16, RPurpose::Pin), (o + 30 + src.below(3) as i16, RPurpose::Obstruction)];
        // one purpose may be registered under two numbers (drawing as 20 and as 0, say): which number an
        // export uses is the layer table's business, but it must be the same every time
        if src.prob(1, 3) {
            purposes.push((o + 5, RPurpose::Drawing));
            purposes.push((o + 25, RPurpose::Pin));
        }
        layers.push(RLayer { num, name: Some(format!("L{}", i)), purposes });
    }
    let nc = src.usize_in(1, 3);
    let mut cells = vec![];
    for ci in 0..nc {
        let has_layout = src.prob(1, 3);
        let mut slot = 0;
        let mut rect = |src: &mut Src| {
            slot += 1;
            let o = ((slot % 6) as i64 * 64, (slot / 6) as i64 * 64);
            RGeom::Rect((o.0 + src.i64_in(0, 10), o.1 + src.i64_in(0, 10)), (o.0 + src.i64_in(12, 40), o.1 + src.i64_in(12, 40)))
        };
        let np = src.usize_in(1, 3);
        let ports = (0..np)
            .map(|pi| {
                let mut idx: Vec<usize> = (0..nl).collect();
                src.shuffle(&mut idx);
                let n = src.usize_in(1, nl.min(3));
                RPort { net: format!("p{}", pi), shapes: idx[..n].iter().map(|l| (*l, (0..src.usize_in(1, 2)).map(|_| rect(src)).collect())).collect() }
            })
            .collect();
        let mut idx: Vec<usize> = (0..nl).collect();
        src.shuffle(&mut idx);
        let nb = src.usize_in(0, nl.min(3));
        let blockages = idx[..nb].iter().map(|l| (*l, vec![rect(src)])).collect();
        let shapes = if has_layout { vec![RShape { layer: src.index(nl), purpose: 0, geom: rect(src), net: if src.bool() { Some("n".into()) } else { None } }] } else { vec![] };
        cells.push(RCell { name: format!("cell{}", ci), has_layout, shapes, insts: vec![], annotations: vec![], abs: Some(RAbs { outline: vec![(0, 0), (400, 0), (400, 300), (0, 300)], ports, blockages }) });
    }
    let mut listing: Vec<usize> = (0..nc).collect();
    src.shuffle(&mut listing);
    RLib { name: "abslib".into(), units: src.below(3) as u8, layers, cells, listing }
}

thread_local! {
    /// toggled by every raw-to-gds materialisation: whether the handles `build` returns are dropped before the export
    static DROP_HANDLES: std::cell::Cell<bool> = const { std::cell::Cell::new(false) };
}
// Each conversion: description (choices) -> (transcript, number of keys in the largest unordered map on the path)
fn conv_raw_to_gds(src: &mut Src) -> Result<(String, usize), String> {
    // one input in four names shapes on layers that have no label purpose (export is then refused, or the
    // label goes somewhere: the same way every time)
    let no_label_purpose = src.prob(1, 4);
    // one in three may name polygons of any shape (where to put the label is then a search, which may fail)
    let nonrect = src.prob(1, 3);
    let mut m = if src.bool() { gen_abstract_heavy(src) } else { rawlib::gen_rawlib(src, &RawGenOpts { abstracts: false, pico: true, annotations: false, nets_need_label_purpose: !no_label_purpose, nonrect_nets: nonrect, max_cells: 4, closed_polygons: false, abs_only_cells: true, shared_purpose_numbers: false, contact_near_bend: false, instances_of_abstracts: false }) };
    // a library may be nameless (every LEF import is)
    if src.prob(1, 4) || FORCE_NAMELESS.with(|c| c.get()) {
        m.name = String::new();
    }
    // only cells without a layout are exported from their abstract
    let keys = m.cells.iter().filter(|c| !c.has_layout).filter_map(|c| c.abs.as_ref()).flat_map(|a| a.ports.iter().map(|p| p.shapes.len())).max().unwrap_or(0);
    // one library in twelve has a polygon with a vertex beyond the 32-bit range, after some that are inside:
    // the export is refused part of the way into the shape (what the next export returns may not depend on that)
    let beyond = src.prob(1, 12);
    if beyond {
        if let Some(c) = m.cells.iter_mut().find(|c| c.has_layout) {
            c.shapes.insert(0, rawlib::RShape { layer: 0, purpose: 0, geom: rawlib::RGeom::Poly(vec![(7, 7), (9, 7), (9, 3_000_000_000), (7, 9)]), net: None });
        }
    }
    // a cell that has no view at all and that nothing instantiates, now and then (a placeholder)
    if src.prob(1, 6) {
        m.cells.push(rawlib::RCell { name: "placeholder".into(), has_layout: false, shapes: vec![], insts: vec![], annotations: vec![], abs: None });
        let at = src.index(m.listing.len() + 1);
        m.listing.insert(at, m.cells.len() - 1);
    }
    let b = rawlib::build(&m);
    // the caller may or may not keep handles on the cells while the library is exported: every other
    // materialisation drops them first (the result may not depend on who else holds a cell)
    let rawlib::Built { lib, cells, .. } = b;
    if DROP_HANDLES.with(|c| {
        let v = !c.get();
        c.set(v);
        v
    }) {
        drop(cells);
    }
    let t = match lib.to_gds() {
        Ok(g) => mask_dates(g),
        // (the debug text of a refusal may print a whole Layer, hash maps included: not part of the result)
        Err(e) if no_label_purpose || nonrect || beyond => {
            let mut s = format!("{:?}", e);
            crate::engine::clip(&mut s, 40);
            format!("ERR {}", s)
        }
        Err(e) => format!("ERR {:?}", e),
    };
    Ok((t, keys))
}
fn conv_raw_to_proto(src: &mut Src) -> Result<(String, usize), String> {
    let mut m = if src.bool() { gen_abstract_heavy(src) } else { rawlib::gen_rawlib(src, &RawGenOpts { abstracts: true, pico: false, annotations: true, nets_need_label_purpose: false, nonrect_nets: true, max_cells: 4, closed_polygons: false, abs_only_cells: true, shared_purpose_numbers: false, contact_near_bend: false, instances_of_abstracts: false }) };
    if src.prob(1, 4) || FORCE_NAMELESS.with(|c| c.get()) {
        m.name = String::new();
    }
    let keys = m.cells.iter().filter_map(|c| c.abs.as_ref()).map(|a| a.blockages.len().max(a.ports.iter().map(|p| p.shapes.len()).max().unwrap_or(0))).max().unwrap_or(0);
    let b = rawlib::build(&m);
    let t = match b.lib.to_proto() {
        Ok(p) => format!("{:?}", p),
        Err(e) => format!("ERR {:?}", e),
    };
    Ok((t, keys))
}
/// protobuf -> raw: the message of a generated library, read back; a message may define one cell name more than
/// once (instances resolve to the latest definition before them), the cells keep their listing order
fn conv_proto_to_raw(src: &mut Src) -> Result<(String, usize), String> {
    let m = rawlib::gen_rawlib(src, &RawGenOpts { abstracts: true, pico: false, annotations: true, nets_need_label_purpose: false, nonrect_nets: true, max_cells: 6, closed_polygons: false, abs_only_cells: true, shared_purpose_numbers: false, contact_near_bend: false, instances_of_abstracts: false });
    let b = rawlib::build(&m);
    let mut p = match b.lib.to_proto() {
        Ok(p) => p,
        Err(e) => return Ok((format!("ERR export {:?}", e), 0)),
    };
    let n = p.cells.len();
    if n >= 2 && src.prob(1, 2) {
        let (i, j) = (src.index(n), src.index(n));
        if i != j {
            p.cells[j].name = p.cells[i].name.clone();
        }
    }
    // a layer's shapes may be spread over several entries of a layout's list (an equivalent spelling of the same
    // content): one entry is split in two, the second half moved to the end of the list
    if src.prob(1, 6) {
        for c in p.cells.iter_mut() {
            if let Some(l) = c.layout.as_mut() {
                if l.shapes.len() >= 2 {
                    let k = l.shapes.len() / 2;
                    let mut second = l.shapes[k].clone();
                    let nr = l.shapes[k].rectangles.len() / 2;
                    second.rectangles = l.shapes[k].rectangles.split_off(nr);
                    second.polygons = vec![];
                    second.paths = std::mem::take(&mut l.shapes[k].paths);
                    l.shapes.push(second);
                }
            }
        }
    }
    // a message written top-down (users before the cells they place), or in no order at all: whatever the
    // importer makes of it - the refusal it gives now, or an import - must be the same every time
    if n >= 2 {
        match src.below(6) {
            0 => p.cells.reverse(),
            1 => src.shuffle(&mut p.cells),
            _ => {}
        }
    }
    let t = match raw::Library::from_proto(p, None) {
        Ok(l) => {
            let mut t = transcript_raw(&l)?;
            // (layers imported without a table have no label purpose: GDSII export of named shapes is refused,
            // and the refusal's debug text prints a hash map; the message is exported again instead)
            t.push_str("\n--- proto\n");
            t.push_str(&match l.to_proto() {
                Ok(p) => format!("{:?}", p),
                Err(_) => "ERR export".to_string(),
            });
            t
        }
        Err(e) => format!("ERR {:?}", e),
    };
    // the importer keeps a name -> cell map
    Ok((t, n))
}
/// raw -> protobuf of a library of 64-100 cells of very different sizes (nothing about a conversion may
/// depend on how large the library is: worker pools, batching and the like included)
fn conv_raw_to_proto_large(src: &mut Src) -> Result<(String, usize), String> {
    let mut m = rawlib::gen_rawlib(src, &RawGenOpts { abstracts: false, pico: false, annotations: false, nets_need_label_purpose: false, nonrect_nets: false, max_cells: 2, closed_polygons: false, abs_only_cells: false, shared_purpose_numbers: false, contact_near_bend: false, instances_of_abstracts: false });
    let base = m.cells.len();
    let template: Option<rawlib::RShape> = m.cells.iter().flat_map(|c| c.shapes.iter()).next().cloned();
    let n = src.usize_in(62, 100);
    for k in 0..n {
        let copies = match src.weighted(&[4, 3, 1]) {
            0 => 0,
            1 => src.usize_in(1, 4),
            _ => 400,
        };
        let shapes = template.iter().flat_map(|t| std::iter::repeat(t.clone()).take(copies)).collect();
        let ni = if base + k > 0 { src.weighted(&[2, 2, 1]) } else { 0 };
        let insts = (0..ni).map(|j| rawlib::RInst { name: format!("i{}", j), target: src.index(base + k), loc: (src.signed(500), src.signed(500)), o: crate::refmodel::geom::Orient::from_index(src.index(8)), none_angle: src.bool(), turns: rawlib::gen_turns(src) }).filter(|i| m.cells[i.target].has_layout).collect();
        m.cells.push(rawlib::RCell { name: format!("big{}", k), has_layout: true, shapes, insts, annotations: vec![], abs: None });
    }
    // one cell drawn on two dozen layer / purpose pairs (nothing about a conversion may depend on how many there are)
    let first_new = m.layers.len();
    let npairs = src.usize_in(17, 40);
    for j in 0..npairs {
        m.layers.push(rawlib::RLayer { num: 200 + (j / 2) as i16 * if j % 4 == 3 { -1 } else { 1 }, name: None, purposes: vec![((j % 2) as i16 * 7, if j % 2 == 0 { rawlib::RPurpose::Drawing } else { rawlib::RPurpose::Pin })] });
    }
    // (two consecutive entries share a layer number but are separate Layer objects only if the numbers differ: keep them distinct)
    for (j, l) in m.layers[first_new..].iter_mut().enumerate() {
        l.num = 200 + j as i16;
    }
    let mut order: Vec<usize> = (0..npairs).collect();
    src.shuffle(&mut order);
    let shapes: Vec<rawlib::RShape> = order.iter().map(|j| rawlib::RShape { layer: first_new + j, purpose: 0, geom: rawlib::RGeom::Rect((*j as i64, 0), (*j as i64 + 5, 7)), net: None }).collect();
    m.cells.push(rawlib::RCell { name: "manylayers".into(), has_layout: true, shapes, insts: vec![], annotations: vec![], abs: None });
    let mut extra: Vec<usize> = (base..base + n + 1).collect();
    src.shuffle(&mut extra);
    m.listing.extend(extra);
    let b = rawlib::build(&m);
    let t = match b.lib.to_proto() {
        // the order of the cells, and what each holds
        Ok(p) => p.cells.iter().map(|c| format!("{} {} {:?}\n", c.name, c.layout.as_ref().map(|l| l.shapes.iter().map(|s| s.rectangles.len() + s.polygons.len() + s.paths.len()).sum::<usize>() * 1000 + l.instances.len()).unwrap_or(0), c.layout.as_ref().map(|l| l.shapes.iter().map(|s| s.layer.as_ref().map(|y| (y.number, y.purpose))).collect::<Vec<_>>()).unwrap_or_default())).collect::<String>(),
        Err(_) => "ERR export".to_string(),
    };
    Ok((t, n))
}
fn conv_gds_to_raw(src: &mut Src) -> Result<(String, usize), String> {
    let mut m = crate::props::c06::gen_lib(src);
    crate::props::c06::add_conflicting_labels(src, &mut m);
    let mut g = crate::props::c06::to_gds(&m);
    let nstructs = g.structs.len();
    // now and then the library places structs it does not define (a pad ring referring to a vendor library):
    // whatever the importer does with them - refuse, as it does now, or stand in empty cells - must not vary
    if !g.structs.is_empty() && src.prob(1, 8) {
        let n = src.usize_in(2, 6);
        let si = src.index(g.structs.len());
        for k in 0..n {
            let name = format!("vendor_pad_{}", (b'a' + ((k * 7 + si) % 26) as u8) as char);
            let xy = gds21::GdsPoint::new(10 * k as i32, -3);
            if k % 3 == 2 {
                g.structs[si].elems.push(gds21::GdsElement::GdsArrayRef(gds21::GdsArrayRef { name, xy: [xy.clone(), gds21::GdsPoint::new(xy.x + 20, xy.y), gds21::GdsPoint::new(xy.x, xy.y + 20)], cols: 2, rows: 2, ..Default::default() }));
            } else {
                g.structs[si].elems.push(gds21::GdsElement::GdsStructRef(gds21::GdsStructRef { name, xy, ..Default::default() }));
            }
        }
    }
    // ... or spells a reference in another case than any struct is named, where two or three structs differ in
    // nothing but case (`Pad`, `PAD`, and a reference to `pad`)
    if !g.structs.is_empty() && src.prob(1, 10) {
        let base = g.structs.len();
        for nm in ["IoPad", "IOPAD", "iopad"].iter().take(src.usize_in(2, 3)) {
            let mut st = gds21::GdsStruct::new(*nm);
            st.elems.push(gds21::GdsElement::GdsBoundary(gds21::GdsBoundary { layer: 3, datatype: 0, xy: gds21::GdsPoint::vec(&[(0, 0), (5, 0), (5, 5), (0, 5), (0, 0)]), ..Default::default() }));
            g.structs.push(st);
        }
        let si = src.index(base);
        for k in 0..src.usize_in(1, 3) {
            g.structs[si].elems.push(gds21::GdsElement::GdsStructRef(gds21::GdsStructRef { name: "ioPAD".into(), xy: gds21::GdsPoint::new(40 * k as i32, 9), ..Default::default() }));
        }
    }
    // ... or its references form a ring (an edit gone wrong): a chain of three or four structs closed on itself,
    // entered from a further struct, so that several names are being visited when the ring closes
    if g.structs.len() >= 2 && src.prob(1, 8) {
        let base = g.structs.len();
        let ring = src.usize_in(2, 4);
        for k in 0..ring {
            let mut st = gds21::GdsStruct::new(format!("ring_{}", (b'a' + ((k * 11 + base) % 26) as u8) as char));
            st.elems.push(gds21::GdsElement::GdsStructRef(gds21::GdsStructRef { name: format!("ring_{}", (b'a' + ((((k + 1) % ring) * 11 + base) % 26) as u8) as char), xy: gds21::GdsPoint::new(k as i32, 1), ..Default::default() }));
            g.structs.push(st);
        }
        // entered from an existing struct (one or two levels above the ring)
        let si = src.index(base);
        let entry = g.structs[base + src.index(ring)].name.clone();
        g.structs[si].elems.push(gds21::GdsElement::GdsStructRef(gds21::GdsStructRef { name: entry, xy: gds21::GdsPoint::new(0, 0), ..Default::default() }));
    }
    // one import in three goes into a layer set provided by the caller, in which two named layers share a
    // number and a datatype (a metal and its via drawn on one GDSII layer), or a name is given twice
    let provided = if src.prob(1, 3) {
        let mut ls = raw::Layers::default();
        for num in 0..3i16 {
            let mut a = raw::Layer::new(num, format!("met{}", num));
            let mut b = raw::Layer::new(num, if num == 2 { "met0".to_string() } else { format!("via{}", num) });
            let _ = a.add_purpose(0, raw::LayerPurpose::Drawing);
            let _ = a.add_purpose(1, raw::LayerPurpose::Pin);
            let _ = b.add_purpose(0, raw::LayerPurpose::Drawing);
            let _ = b.add_purpose(2, raw::LayerPurpose::Label);
            if src.bool() {
                ls.add(a);
                ls.add(b);
            } else {
                ls.add(b);
                ls.add(a);
            }
        }
        Some(layout21utils::Ptr::new(ls))
    } else {
        None
    };
    let with_layers = provided.is_some();
    let t = match raw::Library::from_gds(&g, provided) {
        Ok(l) => transcript_raw(&l)?,
        // (a refusal's debug text may print a Layer, hash maps included)
        Err(e) if with_layers => {
            let mut s = format!("{:?}", e);
            crate::engine::clip(&mut s, 40);
            format!("ERR {}", s)
        }
        Err(e) => format!("ERR {:?}", e),
    };
    // the importer keeps name -> struct and layer maps; with >= 3 structs / 2 layers their order could leak
    Ok((t, nstructs))
}
fn conv_lef_raw_lef(src: &mut Src) -> Result<(String, usize), String> {
    let (mut lib, _) = crate::props::c16::gen_lib(src);
    // one pin name may head several PIN statements (a supply rail at the top and at the bottom)
    for m in lib.macros.iter_mut() {
        if m.pins.len() >= 2 && src.prob(1, 4) {
            let n = m.pins[0].name.clone();
            let k = m.pins.len() - 1;
            m.pins[k].name = n;
        }
    }
    // a LEF file may define a macro name twice; the importer keeps both, in file order
    if lib.macros.len() >= 2 && src.prob(1, 4) {
        let n = lib.macros[0].name.clone();
        let k = lib.macros.len() - 1;
        lib.macros[k].name = n;
    }
    // paths cannot be exported to LEF (unimplemented!): keep rectangles and polygons
    let keep = |l: &mut lef21::LefLayerGeometries| l.geometries.retain(|g| !matches!(g, lef21::LefGeometry::Shape(lef21::LefShape::Path(..)) | lef21::LefGeometry::Iterate { .. }));
    for m in lib.macros.iter_mut() {
        for p in m.pins.iter_mut() {
            for q in p.ports.iter_mut() {
                q.layers.iter_mut().for_each(keep);
            }
        }
        m.obs.iter_mut().for_each(keep);
    }
    // a port may come back to a layer it has drawn on already (a second LAYER statement for the same layer)
    for m in lib.macros.iter_mut() {
        for p in m.pins.iter_mut() {
            for q in p.ports.iter_mut() {
                if !q.layers.is_empty() && src.prob(1, 4) {
                    let mut again = q.layers[0].clone();
                    again.geometries.reverse();
                    if let Some(g) = q.layers.last().and_then(|l| l.geometries.first()).cloned() {
                        again.geometries.push(g);
                    }
                    q.layers.push(again);
                }
            }
        }
    }
    // pins that must be joined name each other (MUSTJOIN, mutually, as the manual's examples do)
    for m in lib.macros.iter_mut() {
        if m.pins.len() >= 2 && src.prob(1, 4) {
            let n = m.pins.len() & !1;
            for k in (0..n).step_by(2) {
                let (a, b) = (m.pins[k].name.clone(), m.pins[k + 1].name.clone());
                if a != b {
                    m.pins[k].must_join = Some(b);
                    m.pins[k + 1].must_join = Some(a);
                }
            }
        }
    }
    // a stacked pin (a power rail): the very same geometries drawn on two or three layers
    for m in lib.macros.iter_mut() {
        for p in m.pins.iter_mut() {
            for q in p.ports.iter_mut() {
                if !q.layers.is_empty() && src.prob(1, 3) {
                    let mut twin = q.layers[src.index(q.layers.len())].clone();
                    let others: Vec<&str> = ["met1", "met2", "met3", "via1", "li1"].iter().cloned().filter(|n| !q.layers.iter().any(|l| l.layer_name == *n)).collect();
                    if let Some(n) = others.first() {
                        twin.layer_name = n.to_string();
                        let at = src.index(q.layers.len() + 1);
                        q.layers.insert(at, twin);
                    }
                }
            }
        }
    }
    let keys = lib.macros.iter().map(|m| {
        let mut obs: Vec<&String> = m.obs.iter().map(|l| &l.layer_name).collect();
        obs.sort();
        obs.dedup();
        let pins = m.pins.iter().map(|p| {
            let mut v: Vec<&String> = p.ports.iter().flat_map(|q| q.layers.iter().map(|l| &l.layer_name)).collect();
            v.sort();
            v.dedup();
            v.len()
        }).max().unwrap_or(0);
        obs.len().max(pins)
    }).max().unwrap_or(0);
    let t = match raw::lef::LefImporter::import(&lib, None) {
        Err(e) => format!("ERR import {:?}", e),
        Ok(rl) => {
            let t1 = transcript_raw(&rl)?;
            match raw::lef::LefExporter::export(&rl) {
                Ok(back) => format!("{}\n---\n{:?}", t1, back),
                Err(e) => format!("{}\n---\nERR export {:?}", t1, e),
            }
        }
    };
    Ok((t, keys))
}
fn conv_tetris(src: &mut Src) -> Result<(String, usize), String> {
    let m = crate::props::c08::gen_tlib(src, false);
    let b = crate::props::c08::build(&m)?;
    let crate::props::c08::BuiltT { lib, stack, .. } = b;
    // give every leaf cell an abstract view as well, with an edge port per metal layer
    let mut keys = 0;
    for cp in lib.cells.iter() {
        let mut c = cp.write().map_err(|_| "lock")?;
        if c.name.starts_with("leaf") && c.layout.is_some() {
            let l = c.layout.as_ref().unwrap();
            let mut a = tet::abs::Abstract::new(c.name.clone(), l.metals, l.outline.clone());
            for k in 0..l.metals {
                a.ports.push(tet::abs::Port { name: format!("p{}", k), kind: tet::abs::PortKind::Edge { layer: k, track: 0, side: if k % 2 == 0 { tet::abs::Side::BottomOrLeft } else { tet::abs::Side::TopOrRight } } });
            }
            keys = keys.max(l.metals);
            c.abs = Some(a);
        }
    }
    // some libraries also hold cells defined by a raw layout (pads, say) kept in a raw library of their
    // own, registered with the gridded library or not, and instantiated by the top cell
    let mut lib = lib;
    if src.bool() {
        let n = src.usize_in(2, 4);
        let ext = layout21utils::Ptr::new(raw::Library::new("padlib", raw::Units::Nano));
        let mut pads = vec![];
        for k in 0..n {
            let rc = ext.write().map_err(|_| "lock")?.cells.add(raw::Cell::from(raw::Layout { name: format!("pad{}", k), ..Default::default() }));
            let c = tet::cell::Cell::from(tet::cell::RawLayoutPtr { outline: tet::outline::Outline::rect(1, 1).map_err(|e| format!("{:?}", e))?, metals: 0, lib: ext.clone(), cell: rc });
            pads.push(lib.cells.add(c));
        }
        if src.bool() {
            lib.rawlibs.push(ext.clone());
        }
        if let Some(top) = lib.cells.iter().find(|c| c.read().map(|c| c.name == "top").unwrap_or(false)) {
            let mut top = top.write().map_err(|_| "lock")?;
            if let Some(l) = top.layout.as_mut() {
                for (k, p) in pads.iter().enumerate() {
                    l.instances.add(tet::instance::Instance { inst_name: format!("pad_i{}", k), cell: p.clone(), loc: (0isize, 0isize).into(), reflect_horiz: false, reflect_vert: false });
                }
            }
        }
        keys = keys.max(n);
    }
    let t = match tet::conv::raw::RawExporter::convert(lib, stack) {
        Err(e) => format!("ERR {:?}", e),
        Ok(rl) => {
            let rl = rl.read().map_err(|_| "lock")?;
            let mut t = transcript_raw(&rl)?;
            t.push_str("\n--- gds\n");
            t.push_str(&match rl.to_gds() {
                Ok(g) => mask_dates(g),
                Err(e) => format!("ERR {:?}", e),
            });
            t.push_str("\n--- proto\n");
            t.push_str(&match rl.to_proto() {
                Ok(p) => format!("{:?}", p),
                Err(e) => format!("ERR {:?}", e),
            });
            t
        }
    };
    Ok((t, keys))
}
thread_local! {
    /// set by the `across-a-second` sub-check: raw libraries are made nameless
    static FORCE_NAMELESS: std::cell::Cell<bool> = const { std::cell::Cell::new(false) };
}
type Conv = fn(&mut Src) -> Result<(String, usize), String>;
const CONVS: &[(&str, Conv)] = &[("raw-to-gds", conv_raw_to_gds), ("raw-to-proto", conv_raw_to_proto), ("gds-to-raw", conv_gds_to_raw), ("proto-to-raw", conv_proto_to_raw), ("raw-to-proto-large", conv_raw_to_proto_large), ("lef-raw-lef", conv_lef_raw_lef), ("tetris-to-raw-gds-proto", conv_tetris)];

fn repeat_case(name: &'static str, f: Conv) -> impl Fn(&mut Src, &mut Ctx) -> Result<(), String> {
    move |src, ctx| {
        // the description is the choice sequence itself: re-read it for every materialisation
        let words: Vec<u32> = {
            let mut v = vec![];
            // copy out the remaining choices by draining a clone of the source
            while !src.exhausted() {
                v.push(src.word());
            }
            v
        };
        let mut first: Option<String> = None;
        for k in 0..K_IN_PROCESS {
            let mut s = Src::new(&words);
            let (t, keys) = f(&mut s)?;
            if k == 0 {
                if keys >= 2 {
                    ctx.nontrivial(hash_of(&(name, &words)));
                    ctx.label(&format!("{}: >= 2 keys in an unordered map on the path", name));
                }
                if t.starts_with("ERR") {
                    ctx.label(&format!("{}: conversion refused", name));
                }
                ctx.sample(name, || {
                    let mut x = t.clone();
                    crate::engine::clip(&mut x, 700);
                    x
                });
                first = Some(t);
            } else if Some(&t) != first.as_ref() {
                let a = first.as_ref().unwrap();
                return Err(format!("{}: converting the same input twice in one process gave different results (run 1 vs run {}); {}", name, k + 1, crate::gen::gds::first_diff(a, &t)));
            }
        }
        ctx.extra_evals(K_IN_PROCESS as u64 - 1);
        Ok(())
    }
}

/// The wall clock must not reach the output (outside the documented GDSII time stamps, which the
/// transcript masks): each conversion is run twice, more than a second apart, once on a generated
/// input as it is and once with the library made nameless.
fn across_a_second_case(src: &mut Src, ctx: &mut Ctx) -> Result<(), String> {
    let i = src.u64() as usize;
    ctx.nontrivial(hash_of(&i));
    ctx.label("every conversion run twice, more than a second apart");
    // (conversion, nameless?, input, first transcript)
    let mut firsts: Vec<(&'static str, Conv, bool, Vec<u32>, String)> = vec![];
    let r = (|| -> Result<(), String> {
        for (ci, (name, f)) in CONVS.iter().enumerate() {
            for nameless in [false, true] {
                let words = crate::engine::draw_vectors(crate::engine::env_seed(), &format!("c20-second-{}-{}-{}", i, ci, nameless), 1, 600).pop().unwrap_or_default();
                FORCE_NAMELESS.with(|c| c.set(nameless));
                let (t, _) = f(&mut Src::new(&words))?;
                firsts.push((name, *f, nameless, words, t));
            }
        }
        std::thread::sleep(std::time::Duration::from_millis(1100));
        for (name, f, nameless, words, a) in &firsts {
            FORCE_NAMELESS.with(|c| c.set(*nameless));
            let (b, _) = f(&mut Src::new(words))?;
            if *a != b {
                return Err(format!("{}{}: converting the same input twice, 1.1 s apart, gave different results; {}", name, if *nameless { " (nameless library)" } else { "" }, crate::gen::gds::first_diff(a, &b)));
            }
        }
        Ok(())
    })();
    FORCE_NAMELESS.with(|c| c.set(false));
    ctx.extra_evals(2 * CONVS.len() as u64 * 2 - 1);
    r
}
/// child-process side: emit the transcript's hash through the failure channel
fn emit_case(f: Conv) -> impl Fn(&mut Src, &mut Ctx) -> Result<(), String> {
    move |src, _ctx| {
        let (t, _) = f(src)?;
        if let Ok(d) = std::env::var("VERIF_C20_DUMP") {
            let _ = std::fs::write(format!("{}/transcript-{}.txt", d, std::process::id()), &t);
        }
        Err(format!("T:{:016x}:{}", hash_str(&t), t.len()))
    }
}
fn cross_process(run: &mut Run, name: &'static str, f: Conv, n: usize, words: usize) {
    let t0 = std::time::Instant::now();
    let vectors = engine::draw_vectors(run.seed, &format!("c20-{}", name), n, words);
    let mut stats = Stats::default();
    let mut failure = None;
    // this process
    let mine: Vec<String> = vectors
        .iter()
        .map(|v| {
            let mut s = Src::new(v);
            match engine::guard(|| f(&mut s)) {
                Ok(Ok((t, keys))) => {
                    if keys >= 2 {
                        stats.nontrivial.insert(hash_of(&(name, v, 1)));
                    }
                    format!("T:{:016x}:{}", hash_str(&t), t.len())
                }
                Ok(Err(e)) => format!("E:{}", e),
                Err(p) => format!("P:{}", p),
            }
        })
        .collect();
    let sub = format!("{}#emit", name);
    for p in 0..M_PROCESSES {
        let outs = run_batch("C20", &sub, &vectors, 120, 65536);
        for (i, o) in outs.iter().enumerate() {
            stats.evaluations += 1;
            let theirs = match o {
                ChildOutcome::Fail(m) => m.clone(),
                other => format!("{:?}", other),
            };
            if theirs.starts_with("T:") && mine[i].starts_with("T:") && theirs != mine[i] && failure.is_none() {
                failure = Some(Failure { sub: name.to_string(), choices: vectors[i].clone(), message: format!("{}: converting the same input in a separate process (#{}) gave a different result (transcript hash {} vs {})", name, p + 1, theirs, mine[i]) });
            }
        }
    }
    run.push(SubResult { name: format!("{}-cross-process", name), kind: "child processes", exhaustive: false, stats, failure, wall_s: t0.elapsed().as_secs_f64() });
}
fn run(run: &mut Run) {
    run.rule("Inputs of C06, C07, C08, C14, C16 (GDSII hierarchies, raw libraries with multi-layer abstract ports and blockages, LEF libraries with several layers per pin, gridded cells with abstract views) as input descriptions; each description is materialised 6 times in this process (fresh hash maps each time) and in 3 separate child processes, converted (GDSII->raw, raw->GDSII, raw->protobuf (also libraries of 64-100 cells of very different sizes), protobuf->raw->protobuf incl. messages defining a cell name twice, LEF->raw->LEF, gridded->raw->GDSII/protobuf) and rendered to a transcript that keeps every sequence order (GDSII timestamps masked; only the result type's own unordered maps are sorted). All transcripts of one description must be identical. Non-trivial = >= 2 keys in an unordered map on the conversion path; distinct by hash of (conversion, description).");
    run.assume("hash seeds cannot be chosen: detection is probabilistic per input (>= 1 - 2^-5 for a two-key map within one process), the verdict over hundreds of inputs effectively deterministic; on a deterministic tree the check cannot fire");
    run.min_nontrivial = 100;
    for (name, f) in CONVS {
        let n = if name.ends_with("-large") { run.tier.pick(250, 3_000) } else { run.tier.pick(8_000, 100_000) };
        let c = repeat_case(name, *f);
        run.explore(name, n, 900, &c);
    }
    run.enumerate("across-a-second", run.tier.pick(1, 4), &across_a_second_case);
    for (name, f) in CONVS {
        let n = if name.ends_with("-large") { run.tier.pick(30, 200) } else { run.tier.pick(300, 2_000) } as usize;
        cross_process(run, name, *f, n, 900);
    }
}
fn case(sub: &str) -> Option<Box<CaseFn<'static>>> {
    if sub == "across-a-second" {
        return Some(Box::new(across_a_second_case));
    }
    for (name, f) in CONVS {
        if sub == *name {
            return Some(Box::new(repeat_case(name, *f)));
        }
        if sub == format!("{}#emit", name) {
            return Some(Box::new(emit_case(*f)));
        }
    }
    None
}
fn render(sub: &str, choices: &[u32]) -> Option<String> {
    for (name, f) in CONVS {
        if sub == *name {
            let mut s = Src::new(choices);
            return f(&mut s).ok().map(|(mut t, _)| {
                crate::engine::clip(&mut t, 1500);
                t
            });
        }
    }
    None
}
