//! C08 — compiled gridded layouts realise exactly their tracks, cuts, vias and nets.
//!
//! R-tracks: the expected geometry is computed from the stack description alone.
use super::PropDef;
use crate::engine::{hash_of, CaseFn, Ctx, Run, Src};
use layout21raw as raw;
use layout21tetris as tet;
use layout21utils::Ptr;
use raw::Dir;
use std::collections::BTreeMap;
use tet::cell::Cell;
use tet::instance::Instance;
use tet::layout::Layout;
use tet::outline::Outline;
use tet::placement::Place;
use tet::stack::*;
use tet::tracks::*;

pub fn def() -> PropDef {
    PropDef { id: "C08", level: "exploration", run, case, render }
}

// ---- stack model ------------------------------------------------------------------------------------------
#[derive(Clone, Copy, Debug, PartialEq, Eq, Hash)]
pub enum TT {
    Gap,
    Sig,
    Gnd,
    Pwr,
}
#[derive(Clone, Debug, PartialEq, Eq, Hash)]
pub struct MMetal {
    pub horiz: bool,
    pub entries: Vec<(TT, i64)>,
    /// how the pattern is written in the stack: None = flat entries; Some((start, len, nrep)) = a Repeat group
    pub repeat: Option<(usize, usize, usize)>,
    pub offset: i64,
    pub overlap: i64,
    pub flip: bool,
    pub cutsize: i64,
    /// pitch in primitive pitches of the periodic direction
    pub m: i64,
}
impl MMetal {
    pub fn pitch(&self) -> i64 {
        self.entries.iter().map(|e| e.1).sum::<i64>() - self.overlap
    }
    /// tracks of period `k`: (start, width, type), in the order the period lists them
    pub fn period_tracks(&self, k: i64) -> Vec<(i64, i64, TT)> {
        let mut cursor = self.offset + self.pitch() * k;
        let mut v = vec![];
        let it: Vec<&(TT, i64)> = if self.flip && k % 2 == 1 { self.entries.iter().rev().collect() } else { self.entries.iter().collect() };
        for (t, w) in it {
            if *t != TT::Gap {
                v.push((cursor, *w, *t));
            }
            cursor += w;
        }
        v
    }
    pub fn nsig(&self) -> usize {
        self.entries.iter().filter(|e| e.0 == TT::Sig).count()
    }
    /// signal track with global index `idx`: (start, width)
    pub fn signal(&self, idx: usize) -> (i64, i64) {
        let n = self.nsig();
        let k = (idx / n) as i64;
        let sigs: Vec<(i64, i64, TT)> = self.period_tracks(k).into_iter().filter(|t| t.2 == TT::Sig).collect();
        // tracks are numbered in the order their period lists them (reversed in flipped periods)
        let s: Vec<(i64, i64)> = sigs.iter().map(|t| (t.0, t.1)).collect();
        s[idx % n]
    }
    pub fn centre(&self, idx: usize) -> i64 {
        let (s, w) = self.signal(idx);
        s + w / 2
    }
    pub fn palindromic(&self) -> bool {
        let shape = |e: &(TT, i64)| (matches!(e.0, TT::Gnd | TT::Pwr), e.0 == TT::Sig, e.1);
        let a: Vec<_> = self.entries.iter().map(shape).collect();
        let mut b = a.clone();
        b.reverse();
        a == b
    }
}
#[derive(Clone, Debug, PartialEq, Eq, Hash)]
pub struct MStack {
    pub prim: (i64, i64),
    pub metals: Vec<MMetal>,
    pub vias: Vec<(i64, i64)>, // size of the via between metal i and i+1
}
#[derive(Clone, Debug, PartialEq, Eq, Hash)]
pub struct MInstT {
    pub target: usize,
    pub loc: (i64, i64),
    pub rh: bool,
    pub rv: bool,
}
#[derive(Clone, Debug, PartialEq, Eq, Hash)]
pub struct MCellT {
    pub name: String,
    pub size: (i64, i64), // primitive pitches
    pub metals: usize,
    pub cuts: Vec<(usize, usize, usize, usize)>,            // (layer, track, cross layer, cross track)
    pub assigns: Vec<(String, (usize, usize, usize, usize))>, // net, (layer, track, cross layer, cross track)
    pub insts: Vec<MInstT>,
    /// some cut request lies on a stretch of track an instance blocks (only the unrealisable-requests sub-check)
    pub cut_on_block: bool,
    /// a leaf that has only an abstract view, with a two-step outline: x = [size.0, steps.0], y = [steps.1, size.1]
    /// (its instances block their bounding box)
    pub steps: Option<(i64, i64)>,
}
#[derive(Clone, Debug, PartialEq, Eq, Hash)]
pub struct MLibT {
    pub stack: MStack,
    pub cells: Vec<MCellT>,
}

// ---- generators -------------------------------------------------------------------------------------------
fn even(src: &mut Src, lo: i64, hi: i64) -> i64 {
    2 * src.i64_in(lo / 2, hi / 2)
}
/// track widths: even three times in four, any whole number otherwise (a rectangle is exactly as wide as its track)
fn width(src: &mut Src, lo: i64, hi: i64) -> i64 {
    if src.prob(1, 4) {
        src.i64_in(lo, hi)
    } else {
        even(src, lo, hi)
    }
}
fn gen_metal(src: &mut Src, horiz: bool, pp: i64, allow_asym_flip: bool) -> MMetal {
    let flip = src.prob(1, 3);
    let rails = src.bool();
    let rail_w = width(src, 8, 40);
    // a layer may carry nothing but rails (a power-strap layer): no signal track at all
    let nsig = if rails && src.prob(1, 8) { 0 } else { src.usize_in(1, 4) };
    // signals and gaps
    let mut body: Vec<(TT, i64)> = vec![];
    for _ in 0..nsig {
        body.push((TT::Gap, even(src, 4, 30)));
        body.push((TT::Sig, width(src, 4, 24)));
    }
    body.push((TT::Gap, even(src, 4, 30)));
    if flip && !allow_asym_flip {
        // palindromic in (kind, width): mirror the first half
        let n = body.len();
        for i in 0..n / 2 {
            body[n - 1 - i] = body[i];
        }
    }
    let mut entries = vec![];
    if rails {
        entries.push((TT::Gnd, rail_w));
    }
    let body_start = entries.len();
    entries.extend(body.iter().cloned());
    if rails {
        entries.push((TT::Pwr, rail_w));
    }
    let overlap = if rails && src.bool() { rail_w } else { 0 };
    let offset = if rails && src.bool() { -rail_w / 2 } else { *src.pick(&[0, 0, 2, -4]) };
    // make the pitch a whole number m of primitive pitches by widening the middle gap
    let total: i64 = entries.iter().map(|e| e.1).sum();
    let m = if total - overlap > pp { 2 } else { src.i64_in(1, 2) };
    let mut target = m * pp + overlap;
    let mut m = m;
    while target < total {
        m += 1;
        target = m * pp + overlap;
    }
    let mid = body_start + body.len() / 2; // the middle gap (body has odd length, gaps at even positions)
    let mid = if entries[mid].0 == TT::Gap { mid } else { mid + 1 };
    entries[mid].1 += target - total;
    // sometimes written with a Repeat group (gap, signal) when the signals are uniform
    let repeat = None;
    // cut sizes: even as a rule; now and then odd (half of it is rounded down on either side of the crossing)
    // or so small (0, 1) that a cut has no extent and merely separates two wire pieces
    let cutsize = match src.weighted(&[12, 2, 1, 1]) {
        0 => even(src, 2, 12),
        1 => 2 * src.i64_in(1, 5) + 1,
        2 => 1,
        _ => 0,
    };
    let mut mm = MMetal { horiz, entries, repeat, offset, overlap, flip, cutsize, m };
    // an offset may be a pitch or more: the whole pattern is shifted by that many periods
    mm.offset += mm.pitch() * *src.pick(&[0i64, 0, 0, 0, 1, -1, 2]);
    mm
}
pub fn gen_stack(src: &mut Src, allow_asym_flip: bool) -> MStack {
    let px = 20 * src.i64_in(6, 20);
    let py = 20 * src.i64_in(6, 20);
    let n = src.usize_in(1, 4);
    let first_h = src.bool();
    let mut metals = vec![];
    for i in 0..n {
        let horiz = (i % 2 == 0) == first_h;
        let pp = if horiz { py } else { px };
        metals.push(gen_metal(src, horiz, pp, allow_asym_flip));
    }
    let vias = (0..n.saturating_sub(1)).map(|_| (even(src, 2, 16), even(src, 2, 16))).collect();
    MStack { prim: (px, py), metals, vias }
}
fn lcm(a: i64, b: i64) -> i64 {
    fn gcd(a: i64, b: i64) -> i64 {
        if b == 0 {
            a
        } else {
            gcd(b, a % b)
        }
    }
    a / gcd(a, b) * b
}
/// multiples the cell size must respect so that every layer below `metals` sees whole periods
fn size_quanta(st: &MStack, metals: usize) -> (i64, i64) {
    let (mut qx, mut qy) = (1, 1);
    for m in &st.metals[..metals] {
        if m.horiz {
            qy = lcm(qy, m.m);
        } else {
            qx = lcm(qx, m.m);
        }
    }
    (qx, qy)
}
/// Number of signal tracks of layer `l` inside a cell of size `size`
fn ntracks(st: &MStack, l: usize, size: (i64, i64)) -> usize {
    let m = &st.metals[l];
    let breadth = if m.horiz { size.1 * st.prim.1 } else { size.0 * st.prim.0 };
    (breadth / m.pitch()) as usize * m.nsig()
}
fn span_of(st: &MStack, l: usize, size: (i64, i64)) -> i64 {
    if st.metals[l].horiz {
        size.0 * st.prim.0
    } else {
        size.1 * st.prim.1
    }
}
thread_local! {
    /// generator switch of the `compile-unrealisable-cuts` sub-check
    static LOOSE_CUTS: std::cell::Cell<bool> = const { std::cell::Cell::new(false) };
    /// ... and whether cut requests may also fall on the crossing of an assignment (and vice versa)
    static LOOSE_OVER_ASSIGN: std::cell::Cell<bool> = const { std::cell::Cell::new(false) };
}
fn gen_cell(src: &mut Src, st: &MStack, name: &str, lower: &[MCellT], max_size: i64, bad_size: bool) -> MCellT {
    // leaf cells are, one time in six, cells that use no metal layer at all (they block nothing)
    let metals = if lower.is_empty() && name != "top" && src.prob(1, 6) { 0 } else { src.usize_in(1, st.metals.len()) };
    let (qx, qy) = size_quanta(st, metals);
    let mut size = (qx * src.i64_in(1, (max_size / qx).max(1)), qy * src.i64_in(1, (max_size / qy).max(1)));
    if bad_size {
        // not a whole number of periods on some layer (only possible if some quantum is > 1)
        if qx > 1 {
            size.0 += 1;
        } else if qy > 1 {
            size.1 += 1;
        }
    }
    let mut cell = MCellT { name: name.to_string(), size, metals, cuts: vec![], assigns: vec![], insts: vec![], cut_on_block: false, steps: None };
    if bad_size || metals == 0 {
        return cell;
    }
    // instances of lower cells: fully inside, aligned to the period grid of every layer they reach
    let mut blocked: Vec<(i64, i64, i64, i64, usize)> = vec![]; // bbox in prim pitches, metals of the instance
    for _ in 0..src.weighted(&[3, 3, 2]) {
        if lower.is_empty() {
            break;
        }
        let t = src.index(lower.len());
        let lc = &lower[t];
        if lc.metals > metals || lc.size.0 > size.0 || lc.size.1 > size.1 {
            continue;
        }
        let (mut ix, mut iy) = size_quanta(st, metals);
        // the unrealisable-requests sub-check also places instances off the period grid of the wider layers:
        // two of them may then share a period (the compiler refuses, or blocks the union of their extents)
        if LOOSE_CUTS.with(|c| c.get()) && src.prob(1, 3) {
            ix = 1;
            iy = 1;
        }
        if lc.size.0 % ix != 0 || lc.size.1 % iy != 0 {
            continue;
        }
        let mut x0 = ix * src.i64_in(0, (size.0 - lc.size.0) / ix);
        let mut y0 = iy * src.i64_in(0, (size.1 - lc.size.1) / iy);
        // rows of cells standing edge to edge are the normal case: one time in three the new instance is
        // put right beside (or right above) the previous one, if it fits there
        if let Some(prev) = blocked.last() {
            if src.prob(1, 3) {
                let (ax, ay) = if src.bool() { (prev.2, prev.1) } else { (prev.0, prev.3) };
                if ax % ix == 0 && ay % iy == 0 && ax + lc.size.0 <= size.0 && ay + lc.size.1 <= size.1 {
                    x0 = ax;
                    y0 = ay;
                }
            }
        }
        // off the period grid (unrealisable-requests sub-check only), one time in three the new instance goes into
        // the row right above the previous one with its extent nested inside the other's (or into the column right
        // beside it, nested the other way): on a layer whose period spans both rows the two then block overlapping
        // stretches of the same tracks
        if let Some(prev) = blocked.last() {
            if ix == 1 && iy == 1 && LOOSE_CUTS.with(|c| c.get()) && src.prob(1, 3) {
                let (pw, ph) = (prev.2 - prev.0, prev.3 - prev.1);
                if src.bool() {
                    if lc.size.0 <= pw && prev.3 + lc.size.1 <= size.1 {
                        x0 = prev.0 + src.i64_in(0, pw - lc.size.0);
                        y0 = prev.3;
                    }
                } else if lc.size.1 <= ph && prev.2 + lc.size.0 <= size.0 {
                    y0 = prev.1 + src.i64_in(0, ph - lc.size.1);
                    x0 = prev.2;
                }
            }
        }
        let bb = (x0, y0, x0 + lc.size.0, y0 + lc.size.1);
        if blocked.iter().any(|b| bb.0 < b.2 && b.0 < bb.2 && bb.1 < b.3 && b.1 < bb.3) {
            continue;
        }
        let (rh, rv) = (src.bool(), src.bool());
        let loc = (if rh { bb.2 } else { bb.0 }, if rv { bb.3 } else { bb.1 });
        cell.insts.push(MInstT { target: t, loc, rh, rv });
        blocked.push((bb.0, bb.1, bb.2, bb.3, lc.metals));
    }
    // Is the point (db units) on layer `l` under an instance blockage, or within `margin` of one?
    // An instance blocks every track of every period it intersects, over its extent along the track.
    let under_block = |l: usize, along: i64, across_period: i64, margin: i64| -> bool {
        let m = &st.metals[l];
        blocked.iter().any(|b| {
            if b.4 <= l {
                return false;
            }
            let (a0, a1, p0, p1) = if m.horiz { (b.0 * st.prim.0, b.2 * st.prim.0, b.1 * st.prim.1, b.3 * st.prim.1) } else { (b.1 * st.prim.1, b.3 * st.prim.1, b.0 * st.prim.0, b.2 * st.prim.0) };
            let (k0, k1) = (across_period * m.pitch(), (across_period + 1) * m.pitch());
            p1 > k0 && p0 < k1 && along > a0 - margin && along < a1 + margin
        })
    };
    // ... or well inside one (at least `margin` from both of its ends), on a period it blocks?
    let deep_in_block = |l: usize, along: i64, across_period: i64, margin: i64| -> bool {
        let m = &st.metals[l];
        blocked.iter().any(|b| {
            if b.4 <= l {
                return false;
            }
            let (a0, a1, p0, p1) = if m.horiz { (b.0 * st.prim.0, b.2 * st.prim.0, b.1 * st.prim.1, b.3 * st.prim.1) } else { (b.1 * st.prim.1, b.3 * st.prim.1, b.0 * st.prim.0, b.2 * st.prim.0) };
            let (k0, k1) = (across_period * m.pitch(), (across_period + 1) * m.pitch());
            p1 > k0 && p0 < k1 && along >= a0 + margin && along <= a1 - margin
        })
    };
    // cuts and assignments
    let mut used: Vec<(usize, usize, i64, i64)> = vec![]; // (layer, track, lo, hi) spans taken on a track
    let mut track_net: BTreeMap<(usize, usize), String> = BTreeMap::new();
    // (a name may begin or end with a blank: it is a different name from the one without)
    let nets = ["a", "b", "clk", "n1", "clk ", " a", "N1"];
    for _ in 0..src.usize_in(0, 6) {
        let is_assign = src.bool();
        let l = src.index(metals);
        // crossing layer: adjacent, inside the cell's metals for assignments
        let cands: Vec<usize> = [l.wrapping_sub(1), l + 1].iter().cloned().filter(|c| *c < st.metals.len() && (!is_assign || *c < metals)).collect();
        if cands.is_empty() {
            continue;
        }
        let cl = cands[src.index(cands.len())];
        let (nt, nc) = (ntracks(st, l, size), ntracks(st, cl, size));
        if nt == 0 || nc == 0 {
            // a request naming track 0 of a layer without signal tracks cannot be realised: in the
            // unrealisable-requests sub-check it is made all the same (it must not crash the compiler)
            if LOOSE_CUTS.with(|c| c.get()) && src.prob(1, 2) {
                if is_assign {
                    cell.assigns.push((nets[0].to_string(), (l, 0, cl, 0)));
                } else if st.metals[l].cutsize / 2 > 0 {
                    // (not where a cut has no extent: should the request be realised after all, at the coordinate of
                    // an assignment, which of the two abutting pieces "covers" the crossing would be open)
                    cell.cuts.push((l, 0, cl, 0));
                }
            }
            continue;
        }
        let (t, c) = (src.index(nt), src.index(nc));
        let (ml, mc) = (&st.metals[l], &st.metals[cl]);
        let along_l = mc.centre(c); // coordinate along layer l's track
        let along_c = ml.centre(t); // coordinate along the crossing layer's track
        let (kl, kc) = ((t / ml.nsig()) as i64, (c / mc.nsig()) as i64);
        let reach = ml.cutsize.max(mc.cutsize) + 4;
        if is_assign {
            let net = nets[src.index(nets.len())].to_string();
            // both tracks must be free of other nets, and the crossing clear of cuts and blockages
            if track_net.get(&(l, t)).map(|n| *n != net).unwrap_or(false) || track_net.get(&(cl, c)).map(|n| *n != net).unwrap_or(false) {
                continue;
            }
            // A crossing over an instance (a pin on top of it) is a legitimate place for an assignment: the via
            // is drawn, the blocked track has no wire there to carry the net. Crossings near a blockage's ends
            // are left out (which side of the boundary the net lands on is not specified).
            let over = |l: usize, along: i64, k: i64| deep_in_block(l, along, k, reach);
            let clear = |l: usize, along: i64, k: i64| !under_block(l, along, k, reach);
            if !((clear(l, along_l, kl) || over(l, along_l, kl)) && (clear(cl, along_c, kc) || over(cl, along_c, kc))) {
                continue;
            }
            // (a cut without extent exactly at an assigned crossing leaves open which of the two abutting pieces
            // "covers" the crossing: never generated)
            if !(LOOSE_OVER_ASSIGN.with(|c| c.get()) && ml.cutsize / 2 > 0 && mc.cutsize / 2 > 0) && used.iter().any(|u| (u.0 == l && u.1 == t && along_l >= u.2 - reach && along_l <= u.3 + reach) || (u.0 == cl && u.1 == c && along_c >= u.2 - reach && along_c <= u.3 + reach)) {
                continue;
            }
            if along_l <= 0 || along_l >= span_of(st, l, size) || along_c <= 0 || along_c >= span_of(st, cl, size) {
                continue;
            }
            used.push((l, t, along_l, along_l));
            used.push((cl, c, along_c, along_c));
            track_net.insert((l, t), net.clone());
            track_net.insert((cl, c), net.clone());
            cell.assigns.push((net, (l, t, cl, c)));
        } else {
            let (lo, hi) = (along_l - ml.cutsize / 2, along_l + ml.cutsize / 2);
            let loose = LOOSE_CUTS.with(|c| c.get());
            if !loose && (lo <= 0 || hi >= span_of(st, l, size)) {
                continue;
            }
            if under_block(l, lo, kl, reach) || under_block(l, hi, kl, reach) || under_block(l, along_l, kl, reach) {
                // loose mode: a cut whose centre lies well inside a blocked stretch is requested now and then;
                // the track has no wire there to cut, so the compiler has to refuse
                if loose && deep_in_block(l, along_l, kl, 1) && src.prob(1, 3) {
                    cell.cuts.push((l, t, cl, c));
                    cell.cut_on_block = true;
                }
                continue;
            }
            // loose mode: cut requests may run over the outline edge and over other cuts (never over the
            // crossing of an assignment): the compiler must refuse them or realise them, not ignore them
            let over_assign = LOOSE_OVER_ASSIGN.with(|c| c.get()) && ml.cutsize / 2 > 0;
            if used.iter().any(|u| u.0 == l && u.1 == t && lo <= u.3 + reach && hi >= u.2 - reach && !(loose && (u.2 != u.3 || over_assign))) {
                continue;
            }
            used.push((l, t, lo, hi));
            cell.cuts.push((l, t, cl, c));
        }
    }
    cell
}
pub fn gen_tlib(src: &mut Src, allow_asym_flip: bool) -> MLibT {
    let stack = gen_stack(src, allow_asym_flip);
    let mut cells = vec![];
    let nleaf = src.usize_in(0, 2);
    for i in 0..nleaf {
        let mut c = gen_cell(src, &stack, &format!("leaf{}", i), &[], 3, false);
        // one leaf in six is a black box: an abstract view only, with an L-shaped outline
        if c.metals > 0 && c.size.0 >= 2 && c.size.1 >= 2 && src.prob(1, 6) {
            c.steps = Some((src.i64_in(1, c.size.0 - 1), src.i64_in(1, c.size.1 - 1)));
            c.cuts.clear();
            c.assigns.clear();
            c.cut_on_block = false;
        }
        cells.push(c);
    }
    let bad = src.prob(1, 12);
    let lower = cells.clone();
    let top = gen_cell(src, &stack, "top", &lower, 8, bad);
    cells.push(top);
    MLibT { stack, cells }
}

// ---- materialise through the public API -------------------------------------------------------------------
pub struct BuiltT {
    pub lib: tet::library::Library,
    pub stack: tet::validate::ValidStack,
    pub metal_keys: Vec<raw::LayerKey>,
    pub via_keys: Vec<raw::LayerKey>,
}
pub fn build(m: &MLibT) -> Result<BuiltT, String> {
    let mut rawlayers = raw::Layers::default();
    let boundary = rawlayers.add(raw::Layer::from_pairs(0, &[(0, raw::LayerPurpose::Outline)]).map_err(|e| format!("{:?}", e))?);
    let purps = [(0i16, raw::LayerPurpose::Drawing), (1, raw::LayerPurpose::Label), (2, raw::LayerPurpose::Pin), (3, raw::LayerPurpose::Obstruction)];
    let mut metal_keys = vec![];
    let mut metals = vec![];
    for (i, mm) in m.stack.metals.iter().enumerate() {
        let key = rawlayers.add(raw::Layer::from_pairs(10 + i as i16, &purps).map_err(|e| format!("{:?}", e))?);
        metal_keys.push(key);
        let entry = |e: &(TT, i64)| TrackEntry { ttype: match e.0 { TT::Gap => TrackType::Gap, TT::Sig => TrackType::Signal, TT::Gnd => TrackType::Rail(RailKind::Gnd), TT::Pwr => TrackType::Rail(RailKind::Pwr) }, width: (e.1 as isize).into() };
        let mut specs: Vec<TrackSpec> = vec![];
        // write uniform (gap, signal) runs as a Repeat group where possible
        let mut i2 = 0;
        let e = &mm.entries;
        while i2 < e.len() {
            let mut reps = 1;
            if i2 + 3 < e.len() && e[i2].0 == TT::Gap && e[i2 + 1].0 == TT::Sig {
                while i2 + 2 * (reps + 1) <= e.len() && e[i2 + 2 * reps..].len() >= 2 && e[i2 + 2 * reps] == e[i2] && e[i2 + 2 * reps + 1] == e[i2 + 1] {
                    reps += 1;
                }
            }
            // (a group repeated zero times contributes nothing, wherever it stands; a group repeated once is its content)
            if (mm.cutsize + mm.m + i as i64 + i2 as i64) % 7 == 0 {
                specs.push(TrackSpec::repeat(vec![TrackEntry { ttype: TrackType::Gap, width: 6isize.into() }, TrackEntry { ttype: TrackType::Signal, width: 4isize.into() }], 0));
            }
            if reps >= 2 && (i % 2 == 0) {
                specs.push(TrackSpec::repeat(vec![entry(&e[i2]), entry(&e[i2 + 1])], reps));
                i2 += 2 * reps;
            } else if i2 + 1 < e.len() && e[i2].0 == TT::Gap && e[i2 + 1].0 == TT::Sig && (mm.cutsize + i2 as i64) % 5 == 0 {
                specs.push(TrackSpec::repeat(vec![entry(&e[i2]), entry(&e[i2 + 1])], 1));
                i2 += 2;
            } else {
                specs.push(TrackSpec::Entry(entry(&e[i2])));
                i2 += 1;
            }
        }
        metals.push(MetalLayer {
            name: format!("met{}", i),
            dir: if mm.horiz { Dir::Horiz } else { Dir::Vert },
            cutsize: (mm.cutsize as isize).into(),
            entries: specs,
            offset: (mm.offset as isize).into(),
            overlap: (mm.overlap as isize).into(),
            flip: if mm.flip { FlipMode::EveryOther } else { FlipMode::None },
            prim: PrimitiveMode::Stack,
            raw: Some(key),
        });
    }
    let mut via_keys = vec![];
    let mut vias = vec![];
    for (i, v) in m.stack.vias.iter().enumerate() {
        let key = rawlayers.add(raw::Layer::from_pairs(50 + i as i16, &purps).map_err(|e| format!("{:?}", e))?);
        via_keys.push(key);
        vias.push(ViaLayer { name: format!("via{}", i), top: ViaTarget::Metal(i + 1), bot: ViaTarget::Metal(i), size: (v.0 as isize, v.1 as isize).into(), raw: Some(key) });
    }
    // the order in which a stack lists its via layers is free: bottom-up, top-down, or with a contact
    // layer (primitive layer to metal 0) listed first
    match hash_of(&m.stack) % 3 {
        1 => vias.reverse(),
        2 => {
            let key = rawlayers.add(raw::Layer::from_pairs(49, &purps).map_err(|e| format!("{:?}", e))?);
            vias.insert(0, ViaLayer { name: "contact".into(), top: ViaTarget::Metal(0), bot: ViaTarget::Primitive, size: (6isize, 10isize).into(), raw: Some(key) });
        }
        _ => {}
    }
    let stack = Stack { units: raw::Units::Nano, prim: PrimitiveLayer::new((m.stack.prim.0 as isize, m.stack.prim.1 as isize).into()), metals, vias, rawlayers: Some(Ptr::new(rawlayers)), boundary_layer: Some(boundary) };
    let stack = stack.validate().map_err(|e| format!("generated stack does not validate: {:?}", e))?;
    let mut lib = tet::library::Library::new("tlib");
    let mut ptrs: Vec<Ptr<Cell>> = vec![];
    for c in &m.cells {
        if let Some((w2, h1)) = c.steps {
            use tet::coords::PrimPitches as PP;
            let outline = Outline { x: vec![PP::x(c.size.0 as isize), PP::x(w2 as isize)], y: vec![PP::y(h1 as isize), PP::y(c.size.1 as isize)] };
            ptrs.push(lib.cells.add(Cell::from(tet::abs::Abstract::new(c.name.clone(), c.metals, outline))));
            continue;
        }
        // one cell in eleven (by content) has its rectangle written in two steps of equal width, x = [w, w],
        // y = [h1, h]: the same rectangle; the compiler may refuse the spelling, or compile the whole rectangle
        let two_step = c.size.1 >= 2 && (c.size.0 * 3 + c.size.1 + c.cuts.len() as i64 + c.assigns.len() as i64) % 11 == 5;
        let outline = if two_step {
            use tet::coords::PrimPitches as PP;
            let h1 = 1 + (c.size.0 + c.insts.len() as i64) % (c.size.1 - 1);
            Outline { x: vec![PP::x(c.size.0 as isize), PP::x(c.size.0 as isize)], y: vec![PP::y(h1 as isize), PP::y(c.size.1 as isize)] }
        } else {
            Outline::rect(c.size.0 as isize, c.size.1 as isize).map_err(|e| format!("{:?}", e))?
        };
        let mut l = Layout::new(c.name.clone(), c.metals, outline);
        for (k, i) in c.insts.iter().enumerate() {
            l.instances.add(Instance { inst_name: format!("i{}", k), cell: ptrs[i.target].clone(), loc: Place::Abs((i.loc.0 as isize, i.loc.1 as isize).into()), reflect_horiz: i.rh, reflect_vert: i.rv });
        }
        for t in &c.cuts {
            l.cuts.push(TrackCross::from_parts(t.0, t.1, t.2, t.3));
        }
        for (n, t) in &c.assigns {
            l.assignments.push(Assign::new(n.clone(), TrackCross::from_parts(t.0, t.1, t.2, t.3)));
        }
        ptrs.push(lib.cells.add(Cell::from(l)));
    }
    Ok(BuiltT { lib, stack, metal_keys, via_keys })
}

// ---- the oracle ------------------------------------------------------------------------------------------------
type Piece = (i64, i64, Option<String>); // along-start, along-stop, net
fn check_cell(m: &MLibT, ci: usize, rcell: &raw::Cell, b: &BuiltT) -> Result<(), String> {
    let c = &m.cells[ci];
    let st = &m.stack;
    let layout = rcell.layout.as_ref().ok_or("compiled cell has no layout")?;
    // nothing on layers above the cell's metals, nothing on unknown layers
    for e in &layout.elems {
        let on_metal = b.metal_keys.iter().position(|k| *k == e.layer);
        let on_via = b.via_keys.iter().position(|k| *k == e.layer);
        match (on_metal, on_via) {
            (Some(l), _) if l < c.metals => {}
            (_, Some(v)) if v + 1 < c.metals => {}
            _ => return Err(format!("cell {}: element on a layer the cell does not use: {:?}", c.name, e)),
        }
        if e.purpose != raw::LayerPurpose::Drawing {
            return Err(format!("cell {}: element with purpose {:?}", c.name, e.purpose));
        }
    }
    for l in 0..c.metals {
        let ml = &st.metals[l];
        let span = span_of(st, l, c.size);
        let breadth = if ml.horiz { c.size.1 * st.prim.1 } else { c.size.0 * st.prim.0 };
        let nper = breadth / ml.pitch();
        // rectangles of this layer, by across-track interval
        let mut by_track: BTreeMap<(i64, i64), Vec<Piece>> = BTreeMap::new();
        for e in layout.elems.iter().filter(|e| e.layer == b.metal_keys[l]) {
            let r = match &e.inner {
                raw::Shape::Rect(r) => r,
                other => return Err(format!("cell {} layer {}: non-rectangle {:?}", c.name, l, other)),
            };
            let (x0, y0, x1, y1) = (r.p0.x as i64, r.p0.y as i64, r.p1.x as i64, r.p1.y as i64);
            // corner order is free: normalise
            let (x0, x1, y0, y1) = (x0.min(x1), x0.max(x1), y0.min(y1), y0.max(y1));
            let (a0, a1, t0, t1) = if ml.horiz { (x0, x1, y0, y1) } else { (y0, y1, x0, x1) };
            if a0 == a1 {
                continue; // zero-length pieces are ignored
            }
            by_track.entry((t0, t1)).or_default().push((a0, a1, e.net.clone()));
        }
        // expected tracks
        let mut expected: BTreeMap<(i64, i64), Vec<(i64, TT)>> = BTreeMap::new(); // interval -> (period, type)
        for k in 0..nper {
            for (s, w, t) in ml.period_tracks(k) {
                expected.entry((s, s + w)).or_default().push((k, t));
            }
        }
        for iv in by_track.keys() {
            if !expected.contains_key(iv) {
                return Err(format!("cell {} layer {} ({}): shapes at across-track interval {:?}, which is not a track of the stack inside the outline (tracks: {:?})", c.name, l, if ml.horiz { "horizontal" } else { "vertical" }, iv, expected.keys().collect::<Vec<_>>()));
            }
        }
        // blocked spans per period: the instance's true extent along the track, reflection included
        let mut blocks: BTreeMap<i64, Vec<(i64, i64)>> = BTreeMap::new();
        for i in &c.insts {
            let lc = &m.cells[i.target];
            if lc.metals <= l {
                continue;
            }
            let (x0, x1) = if i.rh { (i.loc.0 - lc.size.0, i.loc.0) } else { (i.loc.0, i.loc.0 + lc.size.0) };
            let (y0, y1) = if i.rv { (i.loc.1 - lc.size.1, i.loc.1) } else { (i.loc.1, i.loc.1 + lc.size.1) };
            let (a0, a1, p0, p1) = if ml.horiz { (x0 * st.prim.0, x1 * st.prim.0, y0 * st.prim.1, y1 * st.prim.1) } else { (y0 * st.prim.1, y1 * st.prim.1, x0 * st.prim.0, x1 * st.prim.0) };
            for k in 0..nper {
                if p1 > k * ml.pitch() && p0 < (k + 1) * ml.pitch() {
                    blocks.entry(k).or_default().push((a0, a1));
                }
            }
        }
        for (iv, tracks) in &expected {
            let mult = tracks.len();
            let pieces = by_track.get(iv).cloned().unwrap_or_default();
            for (k, tt) in tracks {
                // the requested cuts and assignments on this very track
                let mut gaps: Vec<(i64, i64)> = blocks.get(k).cloned().unwrap_or_default();
                let mut nets: Vec<(i64, String)> = vec![];
                if *tt == TT::Sig {
                    for cut in &c.cuts {
                        if cut.0 == l && ml.signal(cut.1) == (iv.0, iv.1 - iv.0) && (cut.1 / ml.nsig()) as i64 == *k {
                            let at = st.metals[cut.2].centre(cut.3);
                            gaps.push((at - ml.cutsize / 2, at + ml.cutsize / 2));
                        }
                    }
                    for (net, a) in &c.assigns {
                        for (tl, tt2, ol, ot) in [(a.0, a.1, a.2, a.3), (a.2, a.3, a.0, a.1)] {
                            if tl == l && ml.signal(tt2) == (iv.0, iv.1 - iv.0) && (tt2 / ml.nsig()) as i64 == *k {
                                nets.push((st.metals[ol].centre(ot), net.clone()));
                            }
                        }
                    }
                }
                gaps.sort();
                // expected wire pieces: [0, span] minus the gaps
                let mut want: Vec<Piece> = vec![];
                let mut cur = 0;
                for (g0, g1) in &gaps {
                    if *g0 > cur {
                        want.push((cur, *g0, None));
                    }
                    cur = cur.max(*g1);
                }
                if cur < span {
                    want.push((cur, span, None));
                }
                for p in want.iter_mut() {
                    p.2 = match tt {
                        TT::Gnd => Some("VSS".to_string()),
                        TT::Pwr => Some("VDD".to_string()),
                        _ => nets.iter().find(|(at, _)| *at >= p.0 && *at <= p.1).map(|n| n.1.clone()),
                    };
                }
                // the pieces found for this interval must contain this tiling (once per coinciding track)
                let mut rest = pieces.clone();
                for w in &want {
                    match rest.iter().position(|p| p == w) {
                        Some(i) => {
                            rest.remove(i);
                        }
                        None => {
                            return Err(format!(
                                "cell {} layer {} ({}), track at {:?} ({:?}, period {}): expected wire piece {:?} (track from 0 to {} minus cuts/blockages {:?}, nets at {:?}) not found among the shapes {:?}",
                                c.name, l, if ml.horiz { "horizontal" } else { "vertical" }, iv, tt, k, w, span, gaps, nets, pieces
                            ))
                        }
                    }
                }
                if mult == 1 && !rest.is_empty() {
                    return Err(format!("cell {} layer {}, track at {:?} ({:?}, period {}): unexpected extra shapes {:?} (expected exactly {:?})", c.name, l, iv, tt, k, rest, want));
                }
            }
            // with coinciding tracks (overlapping rails of adjacent periods) the total count must match
            if mult > 1 {
                let total_want: usize = tracks
                    .iter()
                    .map(|(k, _)| {
                        let mut gaps: Vec<(i64, i64)> = blocks.get(k).cloned().unwrap_or_default();
                        gaps.sort();
                        let mut n = 0;
                        let mut cur = 0;
                        for (g0, g1) in &gaps {
                            if *g0 > cur {
                                n += 1;
                            }
                            cur = cur.max(*g1);
                        }
                        if cur < span {
                            n += 1;
                        }
                        n
                    })
                    .sum();
                if pieces.len() != total_want {
                    return Err(format!("cell {} layer {}, coinciding tracks at {:?}: {} shapes, expected {}", c.name, l, iv, pieces.len(), total_want));
                }
            }
        }
    }
    // vias: exactly one per assignment, of the stack's size, centred on the crossing, carrying the net
    let mut want_vias: Vec<(usize, (i64, i64, i64, i64), Option<String>)> = vec![];
    for (net, a) in &c.assigns {
        let (bot, top) = if a.0 < a.2 { ((a.0, a.1), (a.2, a.3)) } else { ((a.2, a.3), (a.0, a.1)) };
        let (cb, ct) = (st.metals[bot.0].centre(bot.1), st.metals[top.0].centre(top.1));
        // the bottom track's centre line is an across-coordinate of the bottom layer
        let (cx, cy) = if st.metals[bot.0].horiz { (ct, cb) } else { (cb, ct) };
        let sz = st.vias[bot.0];
        want_vias.push((bot.0, (cx - sz.0 / 2, cy - sz.1 / 2, cx + sz.0 / 2, cy + sz.1 / 2), Some(net.clone())));
    }
    let mut got_vias = vec![];
    for e in &layout.elems {
        if let Some(v) = b.via_keys.iter().position(|k| *k == e.layer) {
            match &e.inner {
                raw::Shape::Rect(r) => got_vias.push((v, (r.p0.x.min(r.p1.x) as i64, r.p0.y.min(r.p1.y) as i64, r.p0.x.max(r.p1.x) as i64, r.p0.y.max(r.p1.y) as i64), e.net.clone())),
                other => return Err(format!("cell {}: via layer carries {:?}", c.name, other)),
            }
        }
    }
    want_vias.sort();
    got_vias.sort();
    if want_vias != got_vias {
        return Err(format!("cell {}: vias (via layer, rectangle, net) {:?}; the assignments {:?} require {:?}", c.name, got_vias, c.assigns, want_vias));
    }
    Ok(())
}
fn oracle(m: &MLibT, ctx: &mut Ctx) -> Result<(), String> {
    let b = build(m)?;
    let metal_keys = b.metal_keys.clone();
    let via_keys = b.via_keys.clone();
    let top = m.cells.last().unwrap();
    let bad_size = {
        let (qx, qy) = size_quanta(&m.stack, top.metals);
        top.size.0 % qx != 0 || top.size.1 % qy != 0
    };
    let BuiltT { lib, stack, .. } = b;
    let res = tet::conv::raw::RawExporter::convert(lib, stack);
    // a cut or assignment naming a track of a layer that has no signal track cannot be realised
    let trackless = m.cells.iter().any(|c| c.cuts.iter().map(|x| *x).chain(c.assigns.iter().map(|a| a.1)).any(|(l, _, cl, _)| m.stack.metals[l].nsig() == 0 || m.stack.metals[cl].nsig() == 0));
    if trackless {
        // Such a request names no track inside the outline; the property does not say what becomes of it
        // (the compiler drops it, or reports an error): only a crash is excluded here.
        ctx.label(&format!("request on a layer without signal tracks: {}", if res.is_ok() { "compiled" } else { "refused" }));
        return Ok(());
    }
    if m.cells.iter().any(|c| c.cut_on_block) {
        ctx.label("cut requested on a stretch of track an instance blocks");
        return match res {
            Err(_) => {
                ctx.nontrivial(hash_of(m));
                Ok(())
            }
            Ok(_) => Err(format!("a cut is requested where an instance blocks the track (no wire there to cut), yet compilation succeeded\nstack {:?}\ncells {:?}", m.stack, m.cells)),
        };
    }
    let rawlib = match res {
        Err(e) => {
            if bad_size {
                ctx.label("outline not a whole number of periods: error reported");
                ctx.nontrivial(hash_of(m));
                return Ok(());
            }
            ctx.refused("compile refused");
            ctx.label(&format!("refused: {}", {
                let mut s = format!("{:?}", e);
                crate::engine::clip(&mut s, 60);
                s
            }));
            return Ok(());
        }
        Ok(l) => l,
    };
    if bad_size {
        return Err(format!("cell outline {:?} is not a whole number of periods of some layer, yet compilation succeeded", top.size));
    }
    let has = |f: &dyn Fn(&MCellT) -> bool| m.cells.iter().any(|c| f(c));
    if has(&|c| !c.cuts.is_empty()) && has(&|c| !c.assigns.is_empty()) && m.stack.metals.len() >= 2 {
        ctx.nontrivial(hash_of(m));
    }
    if has(&|c| c.insts.iter().any(|i| i.rh || i.rv)) {
        ctx.label("reflected instance");
    }
    if has(&|c| !c.insts.is_empty()) {
        ctx.label("cell with instances");
    }
    if m.stack.metals.iter().any(|x| x.flip) {
        ctx.label("stack with every-other-period flipping");
    }
    if m.stack.metals.iter().any(|x| x.overlap > 0) {
        ctx.label("stack with overlapping rails");
    }
    if m.cells.iter().any(|c| m.stack.metals[..c.metals.min(m.stack.metals.len())].iter().any(|x| x.nsig() == 0)) {
        ctx.label("cell reaching a layer that has rails only");
    }
    if m.stack.metals.iter().any(|x| x.offset != 0) {
        ctx.label("stack with an offset");
    }
    ctx.label(&format!("{} metal layers", m.stack.metals.len()));
    ctx.sample("stack and cells", || {
        let mut s = format!("{:?}", m);
        crate::engine::clip(&mut s, 1500);
        s
    });
    let rl = rawlib.read().map_err(|_| "lock")?;
    let bt = BuiltT { lib: tet::library::Library::new("x"), stack: crate::gen::tetris::empty_stack(), metal_keys, via_keys };
    if m.cells.iter().any(|c| c.steps.is_some()) {
        ctx.label("instance of a black-box cell with an L-shaped outline");
    }
    for (ci, c) in m.cells.iter().enumerate() {
        if c.steps.is_some() {
            continue; // no layout of its own to check
        }
        let rc = rl.cells.iter().find(|p| p.read().map(|r| r.name == c.name).unwrap_or(false)).ok_or_else(|| format!("compiled library lacks cell {}", c.name))?;
        let rc = rc.read().map_err(|_| "lock")?;
        check_cell(m, ci, &rc, &bt).map_err(|e| format!("{}\nstack {:?}\ncell {:?}", e, m.stack, c))?;
    }
    Ok(())
}
fn main_case(src: &mut Src, ctx: &mut Ctx) -> Result<(), String> {
    let m = gen_tlib(src, false);
    oracle(&m, ctx)
}
fn gen_loose(src: &mut Src) -> MLibT {
    LOOSE_CUTS.with(|c| c.set(true));
    LOOSE_OVER_ASSIGN.with(|c| c.set(src.bool()));
    let m = gen_tlib(src, false);
    LOOSE_CUTS.with(|c| c.set(false));
    LOOSE_OVER_ASSIGN.with(|c| c.set(false));
    m
}
/// Cut requests that may be impossible (over the outline edge, over another cut): an error, or the
/// tiling with every requested cut realised, are the only acceptable outcomes.
fn loose_case(src: &mut Src, ctx: &mut Ctx) -> Result<(), String> {
    let m = gen_loose(src);
    let top = m.cells.last().unwrap();
    if !top.cuts.is_empty() {
        ctx.label("cell with cut requests that may overlap or leave the outline");
    }
    oracle(&m, ctx)
}
/// Regression inputs of repaired defects, written out as models (independent of the generators)
fn literal_libs() -> Vec<(&'static str, MLibT)> {
    use TT::*;
    vec![(
        "cut request starting before the track (fixed: 9d2332a)",
        MLibT {
            stack: MStack {
                prim: (120, 120),
                metals: vec![
                    MMetal { horiz: true, entries: vec![(Gap, 4), (Sig, 4), (Gap, 4), (Sig, 4), (Gap, 96), (Sig, 4), (Gap, 4)], repeat: None, offset: 0, overlap: 0, flip: false, cutsize: 10, m: 1 },
                    MMetal { horiz: false, entries: vec![(Gap, 4), (Sig, 4), (Gap, 224), (Sig, 4), (Gap, 4)], repeat: None, offset: -4, overlap: 0, flip: false, cutsize: 2, m: 2 },
                ],
                vias: vec![(2, 2)],
            },
            cells: vec![MCellT { name: "top".into(), size: (2, 1), metals: 1, cuts: vec![(0, 0, 1, 0)], assigns: vec![], insts: vec![], cut_on_block: false, steps: None }],
        },
    )]
}
fn literal_case(src: &mut Src, ctx: &mut Ctx) -> Result<(), String> {
    let libs = literal_libs();
    let i = src.u64() as usize % (libs.len() + 1);
    if i == libs.len() {
        return literal_port_on_rails_only_layer(ctx);
    }
    ctx.label(&format!("literal: {}", libs[i].0));
    ctx.nontrivial(hash_of(&libs[i].1));
    oracle(&libs[i].1, ctx).map_err(|e| format!("[{}] {}", libs[i].0, e))
}
/// fixed 29dd2eb: an abstract edge port naming track 0 of a layer that has rails only crashed the compiler
/// (division by zero in Layer::span); an error (or shapes) is required
fn literal_port_on_rails_only_layer(ctx: &mut Ctx) -> Result<(), String> {
    use TT::*;
    let m = MLibT {
        stack: MStack { prim: (120, 120), metals: vec![MMetal { horiz: true, entries: vec![(Gnd, 8), (Gap, 104), (Pwr, 8)], repeat: None, offset: 0, overlap: 0, flip: false, cutsize: 2, m: 1 }], vias: vec![] },
        cells: vec![MCellT { name: "leaf0".into(), size: (1, 1), metals: 1, cuts: vec![], assigns: vec![], insts: vec![], cut_on_block: false, steps: None }],
    };
    ctx.label("literal: abstract edge port on a layer without signal tracks (fixed: 29dd2eb)");
    ctx.nontrivial(hash_of(&m));
    let BuiltT { lib, stack, .. } = build(&m)?;
    {
        let mut c = lib.cells[0].write().map_err(|_| "lock")?;
        let outline = c.layout.as_ref().ok_or("layout")?.outline.clone();
        let mut a = tet::abs::Abstract::new("leaf0", 1, outline);
        a.ports.push(tet::abs::Port { name: "p0".into(), kind: tet::abs::PortKind::Edge { layer: 0, track: 0, side: tet::abs::Side::BottomOrLeft } });
        c.abs = Some(a);
    }
    // an error or a library: anything but a crash
    let _ = tet::conv::raw::RawExporter::convert(lib, stack);
    Ok(())
}
/// Leaf cells that also carry an abstract view with edge ports: compiling must report an error or succeed
/// (a port may name a track of a layer that has no signal track at all); on success every port is one
/// rectangle on its metal layer.
fn ports_case(src: &mut Src, ctx: &mut Ctx) -> Result<(), String> {
    let m = gen_tlib(src, false);
    let b = build(&m)?;
    let metal_keys = b.metal_keys.clone();
    let BuiltT { lib, stack, .. } = b;
    let mut nports = 0;
    let mut on_rails_only = false;
    for cp in lib.cells.iter() {
        let mut c = cp.write().map_err(|_| "lock")?;
        let mc = m.cells.iter().find(|x| x.name == c.name).ok_or("model cell")?;
        if !c.name.starts_with("leaf") || c.layout.is_none() {
            continue;
        }
        let l = c.layout.as_ref().unwrap();
        let mut a = tet::abs::Abstract::new(c.name.clone(), l.metals, l.outline.clone());
        for k in 0..l.metals {
            if src.prob(1, 3) {
                continue;
            }
            let nt = ntracks(&m.stack, k, mc.size);
            let track = if nt == 0 { 0 } else { src.index(nt) };
            on_rails_only |= m.stack.metals[k].nsig() == 0;
            let side = if src.bool() { tet::abs::Side::BottomOrLeft } else { tet::abs::Side::TopOrRight };
            a.ports.push(tet::abs::Port { name: format!("p{}", k), kind: tet::abs::PortKind::Edge { layer: k, track, side } });
            nports += 1;
        }
        c.abs = Some(a);
    }
    if nports > 0 {
        ctx.label("abstract with edge ports");
        ctx.nontrivial(hash_of(&(&m, nports)));
    }
    if on_rails_only {
        ctx.label("edge port on a layer without signal tracks");
    }
    let rawlib = match tet::conv::raw::RawExporter::convert(lib, stack) {
        Err(_) => {
            ctx.refused("compile refused");
            return Ok(());
        }
        Ok(l) => l,
    };
    let rl = rawlib.read().map_err(|_| "lock")?;
    for cp in rl.cells.iter() {
        let c = cp.read().map_err(|_| "lock")?;
        if let Some(a) = &c.abs {
            for p in &a.ports {
                let n: usize = p.shapes.values().map(|v| v.len()).sum();
                let on_metal = p.shapes.keys().all(|k| metal_keys.contains(k));
                let rects = p.shapes.values().flatten().all(|s| matches!(s, raw::Shape::Rect(_)));
                if n != 1 || !on_metal || !rects {
                    return Err(format!("cell {}: port {} compiled to {:?}, expected one rectangle on its metal layer", c.name, p.net, p.shapes));
                }
            }
        }
    }
    Ok(())
}
fn asym_case(src: &mut Src, ctx: &mut Ctx) -> Result<(), String> {
    let m = gen_tlib(src, true);
    if m.stack.metals.iter().any(|x| x.flip && !x.palindromic()) {
        ctx.label("flipped asymmetric pattern");
    }
    oracle(&m, ctx)
}
fn run(run: &mut Run) {
    run.rule("Stack family: 1-4 metal layers alternating direction (either first), entry patterns of optional ground/power rails, 1-4 signals (none at all on one railed layer in eight) and gaps with even widths, written flat or with Repeat groups, offset in {0, -rail/2, small}, overlap in {0, rail width}, with and without every-other-period flipping (palindromic and, in a second sub-check, asymmetric width patterns; tracks numbered in the order their period lists them), layer pitch 1-3 primitive pitches; vias between adjacent metals. Cells: rectangular outlines that are whole periods of every used layer (1 in 12 deliberately not: error required), cuts and assignments at in-range crossings kept clear of each other and of instances with one net per track, leaf-cell instances in all four reflections aligned to whole periods. Oracle (R-tracks): per layer and track, wire pieces + requested cuts + true instance extents tile [0, span]; one via per assignment centred on the crossing; nets on exactly the covering pieces; rails VDD/VSS. Non-trivial = a cut and an assignment and >= 2 metal layers; distinct by hash.");
    run.assume("non-rectangular outlines of compiled cells (black-box leaves may be L-shaped), odd gap/cut/via sizes (track widths are odd one time in four), instances not aligned to whole periods are not generated; abstract edge ports only in the compile-edge-ports sub-check (outcome: error or one rectangle per port)");
    run.min_nontrivial = 100;
    let n = literal_libs().len() as u32 + 1;
    run.literals("literals", &(0..n).map(|i| vec![0, i]).collect::<Vec<_>>(), &literal_case);
    run.explore("compile", run.tier.pick(300_000, 4_000_000), 700, &main_case);
    // the same, each case in a thread of its own (per-thread state of the code starts from scratch)
    run.explore_fresh("compile", run.tier.pick(3_000, 40_000), 700, &main_case);
    // flipped layers with asymmetric patterns: tracks are numbered in the order their period lists them
    run.explore("compile-asymmetric-flip", run.tier.pick(120_000, 1_500_000), 700, &asym_case);
    // cut requests over the outline edge or over each other: refused or realised, never ignored
    run.explore("compile-unrealisable-cuts", run.tier.pick(120_000, 1_500_000), 700, &loose_case);
    // abstract views with edge ports (also on layers that have rails only): an error or shapes, never a crash
    run.explore("compile-edge-ports", run.tier.pick(60_000, 600_000), 700, &ports_case);
}
fn case(sub: &str) -> Option<Box<CaseFn<'static>>> {
    match sub {
        "compile" => Some(Box::new(main_case)),
        "compile-asymmetric-flip" => Some(Box::new(asym_case)),
        "compile-unrealisable-cuts" => Some(Box::new(loose_case)),
        "compile-edge-ports" => Some(Box::new(ports_case)),
        "literals" => Some(Box::new(literal_case)),
        _ => None,
    }
}
fn render(sub: &str, choices: &[u32]) -> Option<String> {
    let mut src = Src::new(choices);
    match sub {
        "compile" => Some(format!("{:?}", gen_tlib(&mut src, false))),
        "compile-asymmetric-flip" => Some(format!("{:?}", gen_tlib(&mut src, true))),
        "compile-unrealisable-cuts" => Some(format!("{:?}", gen_loose(&mut src))),
        _ => None,
    }
}
