//! C11 — the LEF reader never crashes or hangs on any input text.
use super::PropDef;
use crate::engine::{self, alloc, hash_of, CaseFn, Ctx, Run, Src};
use crate::gen::lef::*;
use crate::props::c04::open_text;
use lef21::*;
use std::sync::OnceLock;

pub fn def() -> PropDef {
    PropDef { id: "C11", level: "fault_enumeration", run, case, render: render_case }
}

#[derive(Clone)]
struct Tok {
    start: usize,
    end: usize,
}
struct Base {
    name: String,
    text: String,
    toks: Vec<Tok>,
    /// char boundaries (byte offsets), including 0 and len
    bounds: Vec<usize>,
}
/// Independent tokenizer: whitespace-separated words, `"…"` strings and `# … \n` comments
fn tokenize(t: &str) -> Vec<Tok> {
    let b = t.as_bytes();
    let mut v = vec![];
    let mut i = 0;
    while i < b.len() {
        if b[i].is_ascii_whitespace() {
            i += 1;
            continue;
        }
        let s = i;
        if b[i] == b'"' {
            i += 1;
            while i < b.len() && b[i] != b'"' {
                i += 1;
            }
            i = (i + 1).min(b.len());
        } else if b[i] == b'#' {
            while i < b.len() && b[i] != b'\n' {
                i += 1;
            }
        } else {
            while i < b.len() && !b[i].is_ascii_whitespace() {
                i += 1;
            }
        }
        v.push(Tok { start: s, end: i });
    }
    v
}
const N_BASES: usize = 40;
fn bases() -> &'static Vec<Base> {
    static B: OnceLock<Vec<Base>> = OnceLock::new();
    B.get_or_init(|| {
        let mut v = vec![];
        for (i, words) in engine::draw_vectors(engine::env_seed(), "c11-bases", N_BASES, 2500).iter().enumerate() {
            let mut src = Src::new(words);
            let lib = gen_lef(&mut src, &LefGenOpts { max_macros: 2, ..Default::default() });
            let o = RenderOpts { vary: i % 2 == 0, nonascii_comments: i % 4 == 0, permute: true, end_library: true };
            let (text, _) = render(&lib, &mut src, o);
            v.push((format!("generated#{}", i), text));
        }
        if let Ok(t) = std::fs::read_to_string("/repo/layout21converters/resources/macro.lef") {
            v.push(("macro.lef".to_string(), t));
        }
        v.into_iter()
            .map(|(name, text)| {
                let toks = tokenize(&text);
                let mut bounds: Vec<usize> = text.char_indices().map(|(i, _)| i).collect();
                bounds.push(text.len());
                Base { name, text, toks, bounds }
            })
            .collect()
    })
}
fn locate(table: &[u64], i: u64) -> (usize, u64) {
    let b = table.partition_point(|x| *x <= i) - 1;
    (b, i - table[b])
}

/// The oracle for one text
fn check_text(txt: &str, ctx: &mut Ctx) -> Result<(), String> {
    match open_text(txt) {
        Err(_) => {
            ctx.label("outcome: error");
            Ok(())
        }
        Ok(lib) => {
            ctx.label("outcome: library");
            // any library it returns can be written and read again without a crash
            if let Ok(s) = lib.to_string() {
                let _ = open_text(&s);
            }
            Ok(())
        }
    }
}

// ---- (i) prefixes ---------------------------------------------------------------------------------------
fn prefix_table() -> &'static Vec<u64> {
    static T: OnceLock<Vec<u64>> = OnceLock::new();
    T.get_or_init(|| {
        let mut acc = 0;
        let mut v = vec![0u64];
        for b in bases() {
            acc += b.bounds.len() as u64;
            v.push(acc);
        }
        v
    })
}
fn prefix_case(src: &mut Src, ctx: &mut Ctx) -> Result<(), String> {
    let i = src.u64();
    let (b, k) = locate(prefix_table(), i);
    let base = &bases()[b];
    let cut = base.bounds[k as usize];
    ctx.nontrivial(hash_of(&(b, cut)));
    if i % 7919 == 0 {
        ctx.sample("prefix", || format!("{} cut at byte {} of {}", base.name, cut, base.text.len()));
    }
    check_text(&base.text[..cut], ctx).map_err(|e| format!("{} truncated to {} bytes: {}", base.name, cut, e))
}

// ---- (ii) single-token faults -----------------------------------------------------------------------------
const REPLACEMENTS: &[&str] = &["END", ";", "42", "-0.5", "0", "0.0", "-0", ".0", "-1", "\"abc", "MACRO", "PIN", "LAYER", "RECT", "PORT", "VERSION", "UNITS", "PROPERTY", "BEGINEXT", "ENDEXT", "ITERATE", "DO", "SITE", "VIA", "LIBRARY", "#",
    // numbers at the edges of the 96-bit decimal type behind every LEF number
    "79228162514264337593543950335", "-79228162514264337593543950335", "99999999999999999999999999999", "7922816251426433759354395033.5", "0.0000000000000000000000000001", "123456789012345678901234567890123456789",
    // more decimals than the type has digits, with few significant ones
    "0.00000000000000000000000000000", "0.00000000000000000000000000001", "-1.000000000000000000000000000000", "0.0000000000000000000000000000000000000000001",
    // bus-bit delimiters the wrong way round, doubled, or alone in a name
    "d]3[", "d][", "a>b<c", "d|3", "d[]", "]", "\"][\"", "\"||\"", "\"[[\"", "BUSBITCHARS", "DIVIDERCHAR",
    // string literals with a backslash in front of a quote, an ASCII letter, a multi-byte character, the end of the text
    "\"D:\\设计\"", "\"\\😀\" \"b\"", "\"x\\→", "\"a\\\"b\"", "\"C:\\проекты\\ячейки\"", "\"\\",
    // words of few characters but many bytes (keyword lookup works on the text of the token)
    "中文字符中文字符中文字符中文", "оченьдлинноеслововкириллице", "ＭＡＣＲＯ",
    // statements the reader documents as unsupported
    "MAXVIASTACK", "VIARULE", "NONDEFAULTRULE", "GENERATE", "MANUFACTURINGGRID", "CLEARANCEMEASURE", "PROPERTYDEFINITIONS"];
fn faults_per_token() -> u64 {
    3 + REPLACEMENTS.len() as u64
}
fn fault_table() -> &'static Vec<u64> {
    static T: OnceLock<Vec<u64>> = OnceLock::new();
    T.get_or_init(|| {
        let mut acc = 0;
        let mut v = vec![0u64];
        for b in bases() {
            acc += b.toks.len() as u64 * faults_per_token();
            v.push(acc);
        }
        v
    })
}
fn apply_token_fault(base: &Base, t: usize, k: u64) -> (String, String) {
    let tk = &base.toks[t];
    let txt = &base.text;
    let word = &txt[tk.start..tk.end];
    match k {
        0 => (format!("{}{}", &txt[..tk.start], &txt[tk.end..]), "deleted".into()),
        1 => (format!("{}{} {}", &txt[..tk.end], "", word) + &txt[tk.end..], "duplicated".into()),
        2 => {
            if t + 1 < base.toks.len() {
                let n = &base.toks[t + 1];
                (format!("{}{}{}{}{}", &txt[..tk.start], &txt[n.start..n.end], &txt[tk.end..n.start], word, &txt[n.end..]), "swapped with its neighbour".into())
            } else {
                (txt.clone(), "swapped (last token: unchanged)".into())
            }
        }
        _ => {
            let r = REPLACEMENTS[(k - 3) as usize];
            (format!("{}{}{}", &txt[..tk.start], r, &txt[tk.end..]), format!("replaced by {}", r))
        }
    }
}
fn token_fault_case(src: &mut Src, ctx: &mut Ctx) -> Result<(), String> {
    let i = src.u64();
    let (b, k) = locate(fault_table(), i);
    let base = &bases()[b];
    let t = (k / faults_per_token()) as usize;
    let kind = k % faults_per_token();
    let (txt, what) = apply_token_fault(base, t, kind);
    if txt != base.text {
        ctx.nontrivial(hash_of(&txt));
    }
    ctx.label(&format!("token fault: {}", if kind >= 3 { "replaced".to_string() } else { what.clone() }));
    if i % 4999 == 0 {
        ctx.sample("single-token fault", || format!("{} token #{} '{}' {}", base.name, t, &base.text[base.toks[t].start..base.toks[t].end], what));
    }
    check_text(&txt, ctx).map_err(|e| format!("{} token #{} {}: {}", base.name, t, what, e))
}

// ---- (ii-b) floods: one token (or short phrase) repeated 50 000 times, read on a small stack ---------------------
const FLOOD_COPIES: usize = 50_000;
const FLOOD_PHRASES: &[&str] = &["PROPERTY a 1 ;", "PROPERTY a 1", "RECT 0 0 1 1 ;", "LAYER m ;", "PORT", "END", "MACRO m", "PIN p", "OBS", "BEGINEXT \"t\"", "\"s\"", "# c\n", "\n", "\r\n", "BEGINEXT \"t\" ENDEXT", "( ", "ITERATE", "DO 1 BY 1 STEP 1 1", "VIA 0 0 v ;", "POLYGON 0 0 1 1 2 0", "1", "- 1", "é", "\u{2003}"];
fn flood_total() -> u64 {
    (REPLACEMENTS.len() + FLOOD_PHRASES.len()) as u64 * 4
}
fn flood_case(src: &mut Src, ctx: &mut Ctx) -> Result<(), String> {
    let i = src.u64();
    let np = (REPLACEMENTS.len() + FLOOD_PHRASES.len()) as u64;
    let (pi, where_) = ((i % np) as usize, (i / np) % 4);
    let phrase = if pi < REPLACEMENTS.len() { REPLACEMENTS[pi] } else { FLOOD_PHRASES[pi - REPLACEMENTS.len()] };
    let base = &bases()[0];
    // after the first quarter / half / three quarters of the tokens, or at the very start
    let at = match where_ {
        0 => 0,
        k => base.toks[(base.toks.len() * k as usize / 4).min(base.toks.len() - 1)].end,
    };
    let mut txt = String::with_capacity(base.text.len() + (phrase.len() + 1) * FLOOD_COPIES);
    txt.push_str(&base.text[..at]);
    for _ in 0..FLOOD_COPIES {
        txt.push(' ');
        txt.push_str(phrase);
    }
    txt.push(' ');
    txt.push_str(&base.text[at..]);
    ctx.nontrivial(hash_of(&(phrase, where_)));
    ctx.label("flood of one phrase");
    if i % 11 == 0 {
        ctx.sample("flood", || format!("{} copies of {:?} at byte {} of {}", FLOOD_COPIES, phrase, at, base.name));
    }
    // read on a thread with the default (2 MB) stack: one stack frame per token would not survive
    let res = std::thread::Builder::new()
        .spawn(move || {
            let mut c = Ctx::new(false);
            crate::engine::guard(|| check_text(&txt, &mut c)).and_then(|r| r)
        })
        .map_err(|e| format!("harness: cannot spawn: {}", e))?
        .join()
        .map_err(|_| "reader thread panicked".to_string())?;
    res.map_err(|e| format!("{} copies of {:?} at byte {} of {}: {}", FLOOD_COPIES, phrase, at, base.name, e))
}

// ---- (iii) non-ASCII / odd characters inserted anywhere ------------------------------------------------------
const ODD: &[&str] = &["é", "ß", "Ω", "中", "😀", "\u{a0}", "\u{85}", "\u{2003}", "\x0b", "\x0c", "\r", "\u{feff}", "\"", "#", ";", "\n", "\t", "\0", "\u{301}", "\\", "\\é", "\\😀", "\\\""];
fn insertion_case(src: &mut Src, ctx: &mut Ctx) -> Result<(), String> {
    let b = &bases()[src.index(bases().len())];
    let mut txt = b.text.clone();
    let n = src.usize_in(1, 3);
    let mut desc = vec![];
    for _ in 0..n {
        let bounds: Vec<usize> = txt.char_indices().map(|(i, _)| i).chain(std::iter::once(txt.len())).collect();
        // prefer positions inside or at the edge of a token
        let at = bounds[src.index(bounds.len())];
        // one time in four: a multi-byte character already in the text becomes its neighbour in the code chart
        // (same leading bytes, last byte differs): `END cafè` after `MACRO café`
        let wide: Vec<(usize, char)> = txt.char_indices().filter(|(_, c)| c.len_utf8() > 1).collect();
        if !wide.is_empty() && src.prob(1, 4) {
            let (i, c) = wide[src.index(wide.len())];
            if let Some(d) = char::from_u32(c as u32 ^ 1).filter(|d| d.len_utf8() == c.len_utf8()) {
                txt.replace_range(i..i + c.len_utf8(), &d.to_string());
                desc.push(format!("{:?}->{:?}@{}", c, d, i));
                continue;
            }
        }
        let c = *src.pick(ODD);
        txt.insert_str(at, c);
        desc.push(format!("{:?}@{}", c, at));
    }
    ctx.nontrivial(hash_of(&txt));
    ctx.label("odd character inserted");
    ctx.sample("odd characters inserted", || format!("{}: {}", b.name, desc.join(" ")));
    check_text(&txt, ctx).map_err(|e| format!("{} with {}: {}", b.name, desc.join(" "), e))
}

// ---- (iv) arbitrary UTF-8 made of LEF-ish pieces ---------------------------------------------------------------
fn soup(src: &mut Src) -> String {
    let n = src.usize_in(0, 40);
    let mut s = String::new();
    for _ in 0..n {
        match src.weighted(&[6, 3, 2, 2, 2, 1, 1]) {
            0 => s.push_str(*src.pick(KEYWORDS)),
            1 => s.push_str(&spell_plain(&gen_dec(src))),
            2 => s.push(';'),
            3 => s.push_str(&gen_name(src)),
            4 => s.push_str(*src.pick(ODD)),
            5 => s.push_str(*src.pick(&["1e6", "-", ".", "1.2.3", "--1", "1e999", "nan", "inf", "0x10", "18T", "\"unterminated", "\"q\"", "# c", "+5", "BEGINEXT \"t\" ENDEXT", "BEGINEXT \"t\" # c\n ENDEXT", "BEGINEXT \"t\" 中文字符中文字符中文字符中文 ENDEXT", "中文字符中文字符中文字符中文", "оченьдлинноеслововкириллице", "79228162514264337593543950335", "-79228162514264337593543950335", "99999999999999999999999999999", "0.0000000000000000000000000001", "10000000000000000000000000000"])),
            _ => {
                let c = char::from_u32(src.below(0x11_0000) as u32).unwrap_or('x');
                s.push(c);
            }
        }
        s.push_str(*src.pick(&[" ", " ", " ", "\n", "", "\t"]));
    }
    s
}
fn soup_case(src: &mut Src, ctx: &mut Ctx) -> Result<(), String> {
    let s = soup(src);
    ctx.nontrivial(hash_of(&s));
    ctx.sample("token soup", || s.clone());
    check_text(&s, ctx).map_err(|e| format!("text {:?}: {}", s, e))
}

// ---- allocation scaling ----------------------------------------------------------------------------------------
fn scaling_text(nmacros: usize) -> String {
    let mut s = String::from("VERSION 5.8 ;\n");
    for i in 0..nmacros {
        s.push_str(&format!("MACRO m{} CLASS CORE ; SIZE 1.5 BY 2.5 ; PIN a DIRECTION INPUT ; PORT LAYER met1 ; RECT 0 0 1 1 ; RECT 1.5 0.25 2 3 ; END END a OBS LAYER met2 ; POLYGON 0 0 1 0 1 1 ; END END m{}\n", i, i));
    }
    s.push_str("END LIBRARY\n");
    s
}
fn scaling_case(src: &mut Src, ctx: &mut Ctx) -> Result<(), String> {
    let step = src.u64();
    let n = 100usize << step;
    let (a, b) = (scaling_text(n), scaling_text(2 * n));
    // parse from memory-equivalent: through a file, reading included on both sides
    let (ra, ba, _) = alloc::measure(|| open_text(&a).is_ok());
    let (rb, bb, _) = alloc::measure(|| open_text(&b).is_ok());
    if !ra || !rb {
        return Err("scaling text rejected".into());
    }
    ctx.nontrivial(hash_of(&n));
    ctx.sample("allocation scaling", || format!("{} bytes of LEF -> {} bytes allocated; {} -> {}", a.len(), ba, b.len(), bb));
    if (bb as f64) > 2.6 * (ba as f64) + 65536.0 {
        return Err(format!("allocation grows faster than the input: {} input bytes -> {} allocated, {} input bytes -> {} allocated", a.len(), ba, b.len(), bb));
    }
    Ok(())
}

// ---- time scaling: CPU time for an input sixteen times as long -----------------------------------------------------
fn time_text(shape: u64, n: usize) -> String {
    let mut s = String::from("VERSION 5.8 ;\n");
    match shape {
        0 => {
            for i in 0..n / 8 {
                s.push_str(&format!("MACRO m{} CLASS CORE ; SIZE 1.5 BY 2.5 ; END m{}\n", i, i));
            }
        }
        1 => {
            s.push_str("MACRO big\n");
            for i in 0..n / 12 {
                s.push_str(&format!("PIN p{} DIRECTION INPUT ; PORT LAYER met1 ; RECT 0 0 1 1 ; END END p{}\n", i, i));
            }
            s.push_str("END big\n");
        }
        2 => {
            s.push_str("MACRO geo OBS LAYER met1 ;\n");
            for i in 0..n / 6 {
                s.push_str(&format!("RECT 0 {} 1 {} ;\n", i, i + 1));
            }
            s.push_str("END END geo\n");
        }
        3 => {
            s.push_str("MACRO prp PROPERTY");
            for i in 0..n / 3 {
                s.push_str(&format!(" k{} {}", i, i));
            }
            s.push_str(" ;\nEND prp\n");
        }
        4 => {
            for i in 0..n / 8 {
                s.push_str(&format!("SITE s{} CLASS CORE ; SIZE 1 BY 2 ; END s{}\n", i, i));
            }
        }
        6 => {
            s.push_str("MACRO stm\n");
            for i in 0..n / 5 {
                s.push_str(&format!("PROPERTY k{} {} ;\n", i, i));
            }
            s.push_str("END stm\n");
        }
        7 => {
            s.push_str("MACRO pst PIN p\n");
            for i in 0..n / 5 {
                s.push_str(&format!("PROPERTY k{} {} ;\n", i, i));
            }
            s.push_str("END p END pst\n");
        }
        8 => {
            s.push_str("MACRO blk OBS\n");
            for i in 0..n / 8 {
                s.push_str(&format!("LAYER m{} ; RECT 0 0 1 1 ;\n", i % 9));
            }
            s.push_str("END END blk\n");
        }
        9 => {
            s.push_str("PROPERTYDEFINITIONS\n");
            for i in 0..n / 6 {
                s.push_str(&format!("MACRO d{} INTEGER ;\n", i));
            }
            s.push_str("END PROPERTYDEFINITIONS\n");
        }
        10 => {
            // an extension block of very many plain words, all on one line
            s.push_str("BEGINEXT \"tag\" ");
            for i in 0..n / 6 {
                s.push_str(&format!("w{} ", i % 977));
            }
            s.push_str("ENDEXT\n");
        }
        11 => {
            // ... and one word per line
            s.push_str("BEGINEXT \"tag\"\n");
            for i in 0..n / 6 {
                s.push_str(&format!("w{}\n", i % 977));
            }
            s.push_str("ENDEXT\n");
        }
        13 => {
            // many via placements in one LAYER block of an obstruction
            s.push_str("MACRO vias OBS LAYER met1 ;\n");
            for i in 0..n / 4 {
                s.push_str(&format!("VIA {} {} v{} ;\n", i, i % 7, i % 3));
            }
            s.push_str("END END vias\n");
        }
        12 => {
            // one very long string value of two-byte characters (far beyond 64 KiB in the longer text)
            s.push_str("MACRO lng PROPERTY note \"");
            for _ in 0..n {
                s.push('é');
            }
            s.push_str("\" ; END lng\n");
        }
        _ => {
            // long tokens: a long comment, a long name, a long polygon
            s.push_str("# ");
            s.push_str(&"x".repeat(n));
            s.push_str("\nMACRO ");
            let name = "n".repeat(n);
            s.push_str(&name);
            s.push_str(" OBS LAYER met1 ; POLYGON");
            for i in 0..n / 4 {
                s.push_str(&format!(" {} {}", i, i % 7));
            }
            s.push_str(" ; END END ");
            s.push_str(&name);
            s.push('\n');
        }
    }
    s.push_str("END LIBRARY\n");
    s
}
fn time_case(src: &mut Src, ctx: &mut Ctx) -> Result<(), String> {
    let shape = src.u64() % 14;
    let n = 10_000usize;
    let (a, b) = (time_text(shape, n), time_text(shape, 16 * n));
    ctx.nontrivial(hash_of(&shape));
    let what = ["many macros", "many pins in one macro", "many rectangles in one block", "many property pairs in one statement", "many sites", "long comment, long name, long polygon", "many PROPERTY statements in one macro", "many PROPERTY statements in one pin", "many LAYER blocks in one OBS", "many property definitions", "many words of an extension block on one line", "many words of an extension block, one per line", "one very long non-ASCII string value", "many VIA placements in one LAYER block"][shape as usize];
    let (pa, pb) = (crate::engine::child::scratch_path("c11.time.a.lef"), crate::engine::child::scratch_path("c11.time.b.lef"));
    std::fs::write(&pa, &a).map_err(|e| e.to_string())?;
    std::fs::write(&pb, &b).map_err(|e| e.to_string())?;
    let r = alloc::grows_badly(|big| LefLibrary::open(if big { &pb } else { &pa }).is_ok());
    let _ = std::fs::remove_file(&pa);
    let _ = std::fs::remove_file(&pb);
    let r = r.map_err(|e| format!("reading time grows faster than the input ({}: {} and {} bytes): {}", what, a.len(), b.len(), e))?;
    ctx.label(&format!("time scaling, {}: x{:.0} CPU time for x16 input", what, (r.1 / r.0.max(1e-6)).round()));
    ctx.sample("time scaling", || format!("{}: {} bytes in {:.1} ms, {} bytes in {:.1} ms of CPU time", what, a.len(), r.0 * 1e3, b.len(), r.1 * 1e3));
    Ok(())
}

fn run(run: &mut Run) {
    engine::journal::set_hang_ms(30_000);
    run.rule("Base texts: 40 LEF texts rendered from generated libraries (half with lexical variation, a quarter with non-ASCII comments) + the repository's macro.lef. (i) every prefix at every character boundary; (ii) every single-token fault at every token (delete, duplicate, swap, replace by each of 27 keywords/numbers (incl. the extremes of the 96-bit decimal type)/punctuation/unterminated string); (ii-b) floods: each replacement token and 21 short phrases repeated 50 000 times at four places of a base text, read on a 2 MB stack; (iii) proptest-driven insertion of multi-byte, odd-whitespace and delimiter characters anywhere; (iv) token soup of keywords, numbers, names and arbitrary Unicode scalars; allocation scaling. Oracle: LefLibrary::open returns (panics caught; aborts and hangs caught by the supervising process with a CPU limit), also on the error-report path; an Ok library can be written and re-read without a crash. Non-trivial = faulted text differs from its base; distinct by hash of the text.");
    run.assume("termination = returns before the hang watchdog (30 s in flight) / 20 s CPU in isolation; linear time checked as allocation volume at most doubling when the input doubles and thread CPU time (best of five / three) growing at most 64-fold (+50 ms) when the input grows 16-fold, a suspicious measurement being repeated up to three times, on fourteen text shapes");
    run.min_nontrivial = 1000;
    run.enumerate("prefixes", *prefix_table().last().unwrap(), &prefix_case);
    run.enumerate("token-faults", *fault_table().last().unwrap(), &token_fault_case);
    run.enumerate("floods", flood_total(), &flood_case);
    run.enumerate("header-statements", header_total(), &header_case);
    run.enumerate("rare-statements", rare_total(), &rare_case);
    run.explore("odd-characters", run.tier.pick(150_000, 1_500_000), 16, &insertion_case);
    run.explore("token-soup", run.tier.pick(150_000, 1_500_000), 400, &soup_case);
    run.enumerate("alloc-scaling", run.tier.pick(4, 6), &scaling_case);
    run.enumerate("time-scaling", 14, &time_case);
}
// ---- header statements against the names they govern -----------------------------------------------------------
/// BUSBITCHARS / DIVIDERCHAR declare characters that pin and macro names then contain: every declared pair
/// (ordinary, reversed, one character twice, multi-byte) against every name shape (index in order, delimiters the
/// wrong way round, one of the two, an empty index, the delimiter as the whole name), with the header statement
/// before or after the macro.
const PAIRS: &[&str] = &["[]", "<>", "||", "__", "xx", "][", "«»", "[", "", "[[]]", "\\/"];
const BUS_NAMES: &[&str] = &["d[3]", "d]3[", "d][", "a>b<c", "d|3", "reset_", "rx", "d[]", "]d[", "»x«", "[", "]", "d[3][0]", "d<12>", "d|3|", "«", "x«3»"];
fn header_total() -> u64 {
    (PAIRS.len() * BUS_NAMES.len() * 4) as u64
}
fn header_case(src: &mut Src, ctx: &mut Ctx) -> Result<(), String> {
    let i = src.u64() % header_total();
    let pair = PAIRS[(i as usize) % PAIRS.len()];
    let name = BUS_NAMES[(i as usize / PAIRS.len()) % BUS_NAMES.len()];
    let form = i as usize / PAIRS.len() / BUS_NAMES.len();
    let stmt = if form % 2 == 0 { format!("BUSBITCHARS \"{}\" ;", pair) } else { format!("DIVIDERCHAR \"{}\" ;", pair.chars().next().map(|c| c.to_string()).unwrap_or_default()) };
    let mac = format!("MACRO m{0} PIN {0} DIRECTION INPUT ; END {0} END m{0}", name);
    let txt = if form / 2 == 0 { format!("VERSION 5.8 ; {} {} END LIBRARY", stmt, mac) } else { format!("{} {} END LIBRARY", mac, stmt) };
    ctx.label("header statement against a name");
    ctx.nontrivial(hash_of(&txt));
    ctx.sample("header against name", || txt.clone());
    check_text(&txt, ctx).map_err(|e| format!("text {:?}: {}", txt, e))
}
// ---- rarely used statements, whole and damaged ----------------------------------------------------------------
const RARE: &[&str] = &[
    "MACRO m DENSITY LAYER met1 ; RECT 0 0 40 50 46.6 ; RECT 1 1 2 2 3 ; LAYER met2 ; RECT 0 0 1 1 2 ; END END m",
    "MACRO m DENSITY RECT 0 0 40 50 46.6 ; LAYER met1 ; END END m",
    "MACRO m DENSITY END END m",
    "PROPERTYDEFINITIONS LAYER a REAL ; LIBRARY b INTEGER 5 ; MACRO c STRING \"s\" ; NONDEFAULTRULE widthFactor REAL RANGE 1 10 5 ; PIN e INTEGER RANGE 10 1 ; VIA f REAL 1.5 ; VIARULE g STRING ; END PROPERTYDEFINITIONS",
    "PROPERTYDEFINITIONS NONDEFAULTRULE w REAL ; END PROPERTYDEFINITIONS",
    "MACRO m PIN p DIRECTION OUTPUT TRISTATE ; USE ANALOG ; SHAPE FEEDTHRU ; ANTENNAMODEL OXIDE2 ; ANTENNAGATEAREA 1 LAYER met1 ; ANTENNADIFFAREA 2 ; MUSTJOIN q ; NETEXPR \"a b\" ; PORT CLASS BUMP ; LAYER met1 EXCEPTPGNET SPACING 0.1 ; WIDTH 0.2 ; PATH MASK 2 0 0 1 0 ; VIA MASK 123 1 1 v ; END END p END m",
    "VIA v DEFAULT VIARULE r ; CUTSIZE 1 1 ; LAYERS a b c ; CUTSPACING 1 1 ; ENCLOSURE 1 1 1 1 ; ROWCOL 2 3 ; ORIGIN 0 0 ; OFFSET 0 0 0 0 ; PATTERN 2_F0 ; END v",
    "VIA w RESISTANCE 2 ; LAYER a ; RECT MASK 1 0 0 1 1 ; POLYGON 0 0 1 0 1 1 ; END w",
    "SITE s CLASS PAD ; SYMMETRY X Y R90 ; ROWPATTERN a N b FS ; SIZE 1 BY 2 ; END s",
    "MACRO m CLASS ENDCAP TOPLEFT ; FOREIGN f 1 2 FN ; EEQ n ; SOURCE USER ; SITE s 0 0 N DO 2 BY 3 STEP 1 1 ; FIXEDMASK ; SYMMETRY R90 ; OBS LAYER a DESIGNRULEWIDTH 0.3 ; RECT ITERATE 0 0 1 1 DO 2 BY 2 STEP 3 3 ; END END m",
    "UNITS TIME NANOSECONDS 1 ; CAPACITANCE PICOFARADS 1 ; RESISTANCE OHMS 1 ; POWER MILLIWATTS 1 ; CURRENT MILLIAMPS 1 ; VOLTAGE VOLTS 1 ; DATABASE MICRONS 2000 ; FREQUENCY MEGAHERTZ 1 ; END UNITS",
    "NAMESCASESENSITIVE OFF ; NOWIREEXTENSIONATPIN ON ; MANUFACTURINGGRID 0.005 ; USEMINSPACING OBS OFF ; CLEARANCEMEASURE EUCLIDEAN ; BUSBITCHARS \"<>\" ; DIVIDERCHAR \":\" ; BEGINEXT \"x\" a ; b ENDEXT",
];
fn rare_total() -> u64 {
    // whole, one token dropped (every position), one token doubled (every position)
    RARE.iter().map(|t| 1 + 2 * t.split(' ').count() as u64).sum::<u64>() * 2
}
fn rare_case(src: &mut Src, ctx: &mut Ctx) -> Result<(), String> {
    let mut i = src.u64() % rare_total();
    let versioned = i % 2 == 1;
    i /= 2;
    let mut txt = String::new();
    for t in RARE {
        let toks: Vec<&str> = t.split(' ').collect();
        let n = 1 + 2 * toks.len() as u64;
        if i < n {
            let v: Vec<&str> = if i == 0 {
                toks
            } else if i <= toks.len() as u64 {
                let k = (i - 1) as usize;
                toks.iter().enumerate().filter(|(j, _)| *j != k).map(|(_, t)| *t).collect()
            } else {
                let k = (i - 1 - toks.len() as u64) as usize;
                let mut v = toks.clone();
                v.insert(k, toks[k]);
                v
            };
            txt = v.join(" ");
            break;
        }
        i -= n;
    }
    let txt = if versioned { format!("VERSION 5.8 ; {} END LIBRARY", txt) } else { format!("{}\n", txt) };
    ctx.label("rarely used statement, whole or with one token dropped or doubled");
    ctx.nontrivial(hash_of(&txt));
    ctx.sample("rare statement", || txt.clone());
    check_text(&txt, ctx).map_err(|e| format!("text {:?}: {}", txt, e))
}
fn case(sub: &str) -> Option<Box<CaseFn<'static>>> {
    match sub {
        "prefixes" => Some(Box::new(prefix_case)),
        "token-faults" => Some(Box::new(token_fault_case)),
        "floods" => Some(Box::new(flood_case)),
        "header-statements" => Some(Box::new(header_case)),
        "rare-statements" => Some(Box::new(rare_case)),
        "odd-characters" => Some(Box::new(insertion_case)),
        "token-soup" => Some(Box::new(soup_case)),
        "alloc-scaling" => Some(Box::new(scaling_case)),
        "time-scaling" => Some(Box::new(time_case)),
        "raw-file" => Some(Box::new(|src: &mut Src, ctx: &mut Ctx| {
            let mut bytes = vec![];
            while !src.exhausted() {
                bytes.push(src.word() as u8);
            }
            match String::from_utf8(bytes) {
                Ok(t) => check_text(&t, ctx),
                Err(_) => Ok(()),
            }
        })),
        _ => None,
    }
}
/// Seed corpus for the libFuzzer campaign of the thorough tier
pub fn dump_corpus(dir: &str) {
    let _ = std::fs::create_dir_all(dir);
    for (i, b) in bases().iter().enumerate() {
        let _ = std::fs::write(format!("{}/base{:02}.lef", dir, i), &b.text);
    }
}
fn render_case(sub: &str, choices: &[u32]) -> Option<String> {
    let mut src = Src::new(choices);
    match sub {
        "token-soup" => Some(format!("{:?}", soup(&mut src))),
        "prefixes" => {
            let (b, k) = locate(prefix_table(), src.u64());
            let base = &bases()[b];
            Some(format!("{:?}", &base.text[..base.bounds[k as usize]]))
        }
        "token-faults" => {
            let (b, k) = locate(fault_table(), src.u64());
            let base = &bases()[b];
            let (t, w) = apply_token_fault(base, (k / faults_per_token()) as usize, k % faults_per_token());
            Some(format!("{} : {:?}", w, t))
        }
        _ => None,
    }
}
