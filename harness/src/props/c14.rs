//! C14 — raw layout survives the trip through the protobuf schema.
use super::PropDef;
use crate::engine::{hash_of, CaseFn, Ctx, Run, Src};
use crate::gen::rawlib::*;
use crate::refmodel::geom::P;
use layout21raw as raw;
use raw::proto::proto;
use std::collections::BTreeMap;

pub fn def() -> PropDef {
    PropDef { id: "C14", level: "exploration", run, case, render }
}
fn opts() -> RawGenOpts {
    RawGenOpts { abstracts: true, pico: false, annotations: true, nets_need_label_purpose: false, nonrect_nets: true, max_cells: 5, closed_polygons: true, abs_only_cells: true, shared_purpose_numbers: false, contact_near_bend: false, instances_of_abstracts: true }
}
#[derive(Clone, Debug, PartialEq, Eq, PartialOrd, Ord)]
enum Canon {
    Rect(P, P),
    Poly(Vec<P>),
    Path(Vec<P>, usize),
}
fn canon(g: &RGeom) -> Canon {
    match g {
        RGeom::Rect(a, b) => Canon::Rect((a.0.min(b.0), a.1.min(b.1)), (a.0.max(b.0), a.1.max(b.1))),
        RGeom::Poly(v) => Canon::Poly(v.clone()),
        RGeom::Path(v, w) => Canon::Path(v.clone(), *w),
    }
}
type ShapeKey = (i16, i16, Canon, Option<String>);

// ---- raw -> proto -> raw --------------------------------------------------------------------------------------
fn forward(m: &RLib, ctx: &mut Ctx) -> Result<(), String> {
    let built = crate::gen::rawlib::build_named(m, true);
    let plib = built.lib.to_proto().map_err(|e| format!("to_proto failed: {:?}", e))?;
    // exporting is a function of the library: a second call on the same value gives the same message
    match built.lib.to_proto() {
        Ok(again) if again == plib => {}
        Ok(_) => return Err("to_proto() called twice on one library gave two different messages".into()),
        Err(e) => return Err(format!("to_proto() succeeded, then failed when called again on the same library: {:?}", e)),
    }
    // exported cells: each after the cells it instantiates
    let pos: BTreeMap<&str, usize> = plib.cells.iter().enumerate().map(|(i, c)| (c.name.as_str(), i)).collect();
    if plib.cells.len() != m.cells.len() || pos.len() != m.cells.len() {
        return Err(format!("{} cells exported as {} (distinct names {})", m.cells.len(), plib.cells.len(), pos.len()));
    }
    for c in &m.cells {
        for i in &c.insts {
            let t = &m.cells[i.target].name;
            if pos[t.as_str()] > pos[c.name.as_str()] {
                return Err(format!("exported cell list has {} before {}, which it instantiates", c.name, t));
            }
        }
    }
    let out_of_order = m.listing.iter().enumerate().any(|(k, ci)| m.cells[*ci].insts.iter().any(|i| m.listing.iter().position(|x| *x == i.target).unwrap() > k));
    let has_net = m.cells.iter().any(|c| c.shapes.iter().any(|s| s.net.is_some()));
    if m.cells.len() >= 2 && out_of_order && has_net {
        ctx.nontrivial(hash_of(m));
        ctx.label("instance listed before its target cell");
    }
    if m.cells.iter().any(|c| c.abs.is_some()) {
        ctx.label("has an abstract view");
    }
    if m.cells.iter().any(|c| c.insts.iter().any(|i| i.o.rot != 0)) {
        ctx.label("rotated instance");
    }
    crate::gen::rawlib::classify(m, ctx);
    ctx.sample("raw library", || {
        let mut s = format!("{:?}", m);
        crate::engine::clip(&mut s, 1200);
        s
    });
    let back = raw::Library::from_proto(plib, None).map_err(|e| format!("import of the exported message failed: {:?}", e))?;
    if back.name != m.name {
        return Err(format!("library name {:?} came back as {:?}", m.name, back.name));
    }
    if back.units != units_of(m.units) {
        return Err(format!("units {:?} came back as {:?}", units_of(m.units), back.units));
    }
    let layers = back.layers.read().map_err(|_| "lock")?;
    let mut cells: BTreeMap<String, raw::utils::Ptr<raw::Cell>> = BTreeMap::new();
    for c in back.cells.iter() {
        cells.insert(c.read().map_err(|_| "lock")?.name.clone(), c.clone());
    }
    for (ci, c) in m.cells.iter().enumerate() {
        let cell = cells.get(&c.name).ok_or_else(|| format!("cell {} missing after the round trip", c.name))?.read().map_err(|_| "lock")?;
        // the names the views were built with (they need not be the cell's name)
        let (built_layout_name, built_abs_name) = {
            let b = built.cells[ci].read().map_err(|_| "lock")?;
            (b.layout.as_ref().map(|l| l.name.clone()), b.abs.as_ref().map(|a| a.name.clone()))
        };
        if cell.layout.is_some() != c.has_layout || cell.abs.is_some() != c.abs.is_some() {
            return Err(format!("cell {}: views changed (layout {} -> {}, abstract {} -> {})", c.name, c.has_layout, cell.layout.is_some(), c.abs.is_some(), cell.abs.is_some()));
        }
        if let Some(layout) = &cell.layout {
            if Some(&layout.name) != built_layout_name.as_ref() {
                return Err(format!("cell {}: layout name {:?} came back as {}", c.name, built_layout_name, layout.name));
            }
            let mut want: BTreeMap<ShapeKey, usize> = BTreeMap::new();
            for s in &c.shapes {
                let l = &m.layers[s.layer];
                *want.entry((l.num, l.purposes[s.purpose].0, canon(&s.geom), s.net.clone())).or_default() += 1;
            }
            let mut got: BTreeMap<ShapeKey, usize> = BTreeMap::new();
            for e in &layout.elems {
                let l = layers.get(e.layer).ok_or("layer key")?;
                let p = l.num(&e.purpose).ok_or("purpose number")?;
                *got.entry((l.layernum, p, canon(&RGeom::from_raw(&e.inner)), e.net.clone())).or_default() += 1;
            }
            if want != got {
                let miss: Vec<_> = want.iter().filter(|(k, n)| got.get(*k) != Some(*n)).take(2).collect();
                let extra: Vec<_> = got.iter().filter(|(k, n)| want.get(*k) != Some(*n)).take(2).collect();
                return Err(format!("cell {}: shapes (layer number, purpose number, points, width, net) changed. source {:?} / came back {:?}", c.name, miss, extra));
            }
            let wi: Vec<(String, String, P, bool, i64)> = c.insts.iter().map(|i| (i.name.clone(), m.cells[i.target].name.clone(), i.loc, i.o.refl, 90 * i.o.rot as i64)).collect();
            let mut gi = vec![];
            for i in &layout.insts {
                let a = i.angle.unwrap_or(0.0);
                gi.push((i.inst_name.clone(), i.cell.read().map_err(|_| "lock")?.name.clone(), (i.loc.x as i64, i.loc.y as i64), i.reflect_vert, (a as i64).rem_euclid(360)));
                if a != a.round() {
                    return Err(format!("instance angle came back as {}", a));
                }
            }
            let (mut wi, mut gi) = (wi, gi);
            wi.sort();
            gi.sort();
            if wi != gi {
                return Err(format!("cell {}: instances (name, target, location, reflection, rotation) {:?} came back as {:?}", c.name, wi, gi));
            }
            let wa: Vec<(String, P)> = c.annotations.clone();
            let ga: Vec<(String, P)> = layout.annotations.iter().map(|a| (a.string.clone(), (a.loc.x as i64, a.loc.y as i64))).collect();
            let (mut wa, mut ga) = (wa, ga);
            wa.sort();
            ga.sort();
            if wa != ga {
                return Err(format!("cell {}: annotations {:?} came back as {:?}", c.name, wa, ga));
            }
        }
        if let (Some(a), Some(ga)) = (&c.abs, &cell.abs) {
            let go: Vec<P> = ga.outline.points.iter().map(|p| (p.x as i64, p.y as i64)).collect();
            if go != a.outline || Some(&ga.name) != built_abs_name.as_ref() {
                return Err(format!("cell {}: abstract outline/name changed: {:?} {:?}", c.name, ga.name, go));
            }
            if ga.ports.len() != a.ports.len() {
                return Err(format!("cell {}: {} ports came back as {}", c.name, a.ports.len(), ga.ports.len()));
            }
            for (p, gp) in a.ports.iter().zip(ga.ports.iter()) {
                if p.net != gp.net {
                    return Err(format!("cell {}: port {} came back as {}", c.name, p.net, gp.net));
                }
                let want: BTreeMap<i16, Vec<Canon>> = p.shapes.iter().map(|(l, v)| (m.layers[*l].num, v.iter().map(canon).collect())).collect();
                let mut got: BTreeMap<i16, Vec<Canon>> = BTreeMap::new();
                for (k, v) in &gp.shapes {
                    got.insert(layers.get(*k).ok_or("layer key")?.layernum, v.iter().map(|s| canon(&RGeom::from_raw(s))).collect());
                }
                // within a layer the schema groups rectangles, polygons, paths: compare as multisets
                if sorted(&want) != sorted(&got) {
                    return Err(format!("cell {} port {}: shapes by layer number {:?} came back as {:?}", c.name, p.net, want, got));
                }
            }
            let want: BTreeMap<i16, Vec<Canon>> = a.blockages.iter().map(|(l, v)| (m.layers[*l].num, v.iter().map(canon).collect())).collect();
            let mut got: BTreeMap<i16, Vec<Canon>> = BTreeMap::new();
            for (k, v) in &ga.blockages {
                got.insert(layers.get(*k).ok_or("layer key")?.layernum, v.iter().map(|s| canon(&RGeom::from_raw(s))).collect());
            }
            if sorted(&want) != sorted(&got) {
                return Err(format!("cell {}: blockages by layer number {:?} came back as {:?}", c.name, want, got));
            }
        }
    }
    Ok(())
}
fn sorted(m: &BTreeMap<i16, Vec<Canon>>) -> BTreeMap<i16, Vec<Canon>> {
    m.iter()
        .map(|(k, v)| {
            let mut v = v.clone();
            v.sort();
            (*k, v)
        })
        .collect()
}
fn forward_case(src: &mut Src, ctx: &mut Ctx) -> Result<(), String> {
    let mut m = gen_rawlib(src, &opts());
    // a cell may be named by the empty string (the name is data), instantiated or not
    if src.prob(1, 20) && !m.cells.iter().any(|c| c.name.is_empty()) {
        let used: Vec<usize> = (0..m.cells.len()).filter(|i| m.cells.iter().any(|c| c.insts.iter().any(|x| x.target == *i))).collect();
        let k = if !used.is_empty() && src.prob(3, 4) { used[src.index(used.len())] } else { src.index(m.cells.len()) };
        m.cells[k].name = String::new();
        ctx.label("a cell named by the empty string");
    }
    forward(&m, ctx)
}
/// chains of 30-200 nested cells (with leaves shared between neighbouring levels), in any listing order
fn deep_case(src: &mut Src, ctx: &mut Ctx) -> Result<(), String> {
    let (m, label) = gen_deep(src, &opts());
    ctx.label(&label);
    forward(&m, ctx)
}

// ---- proto -> raw -> proto --------------------------------------------------------------------------------------
fn ppt(p: P) -> proto::Point {
    proto::Point::new(p.0, p.1)
}
fn gen_layer_shapes(src: &mut Src, number: i64, purpose: i64, slot: usize) -> proto::LayerShapes {
    let mut ls = proto::LayerShapes { layer: Some(proto::Layer { number, purpose }), ..Default::default() };
    let n = src.usize_in(1, 3);
    for k in 0..n {
        let net = if src.bool() { src.pick(&["a", "VDD", "n<1>"]).to_string() } else { String::new() };
        match gen_geom(src, slot + k).0 {
            RGeom::Rect(a, b) => ls.rectangles.push(proto::Rectangle { net, lower_left: Some(ppt((a.0.min(b.0), a.1.min(b.1)))), width: (a.0 - b.0).abs(), height: (a.1 - b.1).abs() }),
            RGeom::Poly(mut v) => {
                // some messages repeat the first vertex at the end; the point list is data, not to be "cleaned"
                if src.prob(1, 4) {
                    v.push(v[0]);
                }
                ls.polygons.push(proto::Polygon { net, vertices: v.into_iter().map(ppt).collect() })
            }
            RGeom::Path(v, w) => ls.paths.push(proto::Path { net, points: v.into_iter().map(ppt).collect(), width: w as i64 }),
        }
    }
    ls
}
/// A message in the supported subset plus the Layers table that defines the Pin / Obstruction
/// numbers its abstracts use.
fn gen_message(src: &mut Src) -> (proto::Library, Vec<(i16, i16, i16)>) {
    let nl = src.usize_in(1, 4);
    // (layer number, pin purpose number, obstruction purpose number)
    let tab: Vec<(i16, i16, i16)> = (0..nl).map(|i| (10 * i as i16 + src.below(9) as i16, 1 + src.below(5) as i16, 7 + src.below(5) as i16)).collect();
    let nc = src.usize_in(1, 5);
    let mut cells: Vec<proto::Cell> = vec![];
    for ci in 0..nc {
        let name = format!("pc{}", ci);
        let mut cell = proto::Cell { name: name.clone(), ..Default::default() };
        let has_layout = ci == 0 || !src.prob(1, 5);
        if has_layout {
            let mut lay = proto::Layout { name: if src.prob(1, 3) { format!("{}_layout", name) } else { name.clone() }, ..Default::default() };
            // unique (number, purpose) per list
            let mut used: Vec<(i64, i64)> = vec![];
            for k in 0..src.usize_in(0, 3) {
                let l = tab[src.index(tab.len())];
                let key = (l.0 as i64, 20 + src.below(6) as i64);
                if !used.contains(&key) {
                    used.push(key);
                    lay.shapes.push(gen_layer_shapes(src, key.0, key.1, 3 * k));
                }
            }
            let targets: Vec<usize> = (0..ci).filter(|i| cells[*i].layout.is_some()).collect();
            if !targets.is_empty() {
                for k in 0..src.usize_in(0, 3) {
                    let t = targets[src.index(targets.len())];
                    lay.instances.push(proto::Instance {
                        name: crate::gen::rawlib::gen_inst_name(src, k),
                        cell: Some(proto::Reference { to: Some(proto::reference::To::Local(cells[t].name.clone())) }),
                        origin_location: Some(ppt((src.signed(3000), src.signed(3000)))),
                        reflect_vert: src.bool(),
                        rotation_clockwise_degrees: 90 * src.below(4) as i32 - if src.prob(1, 4) { 360 } else { 0 }, // negative: counter-clockwise
                    });
                }
            }
            if src.prob(1, 3) {
                lay.annotations.push(proto::TextElement { string: "note 1".into(), loc: Some(ppt((src.signed(50), src.signed(50)))) });
            }
            cell.layout = Some(lay);
        }
        if !has_layout || src.prob(1, 3) {
            let (w, h) = (src.i64_in(5, 300), src.i64_in(5, 300));
            let mut abs = proto::Abstract { name: if src.prob(1, 3) { format!("{}_abs", name) } else { name.clone() }, outline: Some(proto::Polygon { net: String::new(), vertices: vec![ppt((0, 0)), ppt((w, 0)), ppt((w, h)), ppt((0, h))] }), ..Default::default() };
            for pi in 0..src.usize_in(0, 2) {
                let mut port = proto::AbstractPort { net: format!("p{}", pi), ..Default::default() };
                let mut idx: Vec<usize> = (0..tab.len()).collect();
                src.shuffle(&mut idx);
                let n = src.usize_in(1, tab.len().min(3));
                for (k, li) in idx[..n].iter().enumerate() {
                    let mut ls = gen_layer_shapes(src, tab[*li].0 as i64, tab[*li].1 as i64, 6 * pi + 2 * k);
                    for r in ls.rectangles.iter_mut() {
                        r.net.clear();
                    }
                    for r in ls.polygons.iter_mut() {
                        r.net.clear();
                    }
                    for r in ls.paths.iter_mut() {
                        r.net.clear();
                    }
                    port.shapes.push(ls);
                }
                abs.ports.push(port);
            }
            let mut idx: Vec<usize> = (0..tab.len()).collect();
            src.shuffle(&mut idx);
            let n = src.usize_in(0, tab.len().min(3));
            for (k, li) in idx[..n].iter().enumerate() {
                let mut ls = gen_layer_shapes(src, tab[*li].0 as i64, tab[*li].2 as i64, 20 + 2 * k);
                for r in ls.rectangles.iter_mut() {
                    r.net.clear();
                }
                for r in ls.polygons.iter_mut() {
                    r.net.clear();
                }
                for r in ls.paths.iter_mut() {
                    r.net.clear();
                }
                abs.blockages.push(ls);
            }
            cell.r#abstract = Some(abs);
        }
        cells.push(cell);
    }
    let lib = proto::Library { domain: src.pick(&["plib", "a.b", ""]).to_string(), units: src.below(3) as i32, cells, author: None };
    (lib, tab)
}
/// order-insensitive view of the lists that the raw model keeps in unordered maps
fn normalise(mut l: proto::Library) -> proto::Library {
    for c in l.cells.iter_mut() {
        if let Some(a) = c.r#abstract.as_mut() {
            let key = |ls: &proto::LayerShapes| ls.layer.as_ref().map(|l| (l.number, l.purpose)).unwrap_or((-1, -1));
            a.blockages.sort_by_key(key);
            for p in a.ports.iter_mut() {
                p.shapes.sort_by_key(key);
            }
        }
    }
    l
}
fn backward_case(src: &mut Src, ctx: &mut Ctx) -> Result<(), String> {
    let (msg, tab) = gen_message(src);
    let mut layers = raw::Layers::default();
    for (num, pin, obs) in &tab {
        layers.add(raw::Layer::from_pairs(*num, &[(*pin, raw::LayerPurpose::Pin), (*obs, raw::LayerPurpose::Obstruction)]).map_err(|e| format!("{:?}", e))?);
    }
    let has_inst = msg.cells.iter().any(|c| c.layout.as_ref().map(|l| !l.instances.is_empty()).unwrap_or(false));
    let has_net = msg.cells.iter().any(|c| c.layout.as_ref().map(|l| l.shapes.iter().any(|s| s.rectangles.iter().any(|r| !r.net.is_empty()) || s.polygons.iter().any(|r| !r.net.is_empty()) || s.paths.iter().any(|r| !r.net.is_empty()))).unwrap_or(false));
    if msg.cells.len() >= 2 && has_inst && has_net {
        ctx.nontrivial(hash_of(&format!("{:?}", msg)));
    }
    ctx.label("protobuf -> raw -> protobuf");
    let polys = || msg.cells.iter().flat_map(|c| c.layout.iter().flat_map(|l| l.shapes.iter()).chain(c.r#abstract.iter().flat_map(|a| a.ports.iter().flat_map(|p| p.shapes.iter()).chain(a.blockages.iter())))).flat_map(|ls| ls.polygons.iter());
    if polys().any(|p| p.vertices.len() > 3 && p.vertices.first() == p.vertices.last()) {
        ctx.label("message polygon repeating its first vertex");
    }
    if msg.cells.iter().any(|c| c.layout.is_some() && c.r#abstract.is_some()) {
        ctx.label("message cell with both views");
    }
    if msg.cells.iter().any(|c| c.layout.is_none()) {
        ctx.label("message cell with an abstract only");
    }
    ctx.sample("protobuf library", || {
        let mut s = format!("{:?}", msg);
        crate::engine::clip(&mut s, 1200);
        s
    });
    let lib = raw::Library::from_proto(msg.clone(), Some(raw::utils::Ptr::new(layers))).map_err(|e| format!("from_proto of a supported message failed: {:?}", e))?;
    let back = lib.to_proto().map_err(|e| format!("to_proto of the imported library failed: {:?}", e))?;
    let (a, b) = (normalise(msg), normalise(back));
    if a != b {
        return Err(format!("message changed through raw; {}", crate::gen::gds::first_diff(&format!("{:?}", a), &format!("{:?}", b))));
    }
    Ok(())
}

fn run(run: &mut Run) {
    run.rule("(->) G-rawlib libraries incl. abstract views (outline, multi-layer ports, blockages), cells in shuffled listing order, eight instance orientations, all shape kinds with nets, annotations, units micro/nano/angstrom: to_proto lists every cell after the cells it instantiates, from_proto succeeds, and name, units, views, shapes (multisets), instances, annotations, ports and blockages are equal. (<-) generated protobuf messages in the supported subset (cells before users, unique layer keys per list, non-empty shape lists, non-negative sizes, right-angle rotations) with a Layers table defining the Pin/Obstruction numbers: from_proto then to_proto equals the message (port/blockage layer lists compared as multisets). Non-trivial = >= 2 cells with an instance listed before its target (->) / with an instance (<-), and a net; distinct by hash.");
    run.assume("Units::Pico is not in the schema and is not generated; the order of map-derived lists is C20's subject");
    run.min_nontrivial = 200;
    run.explore("raw-proto-raw", run.tier.pick(300_000, 3_000_000), 1200, &forward_case);
    // the same, each case in a thread of its own (per-thread state of the code starts from scratch)
    run.explore_fresh("raw-proto-raw", run.tier.pick(3_000, 40_000), 1200, &forward_case);
    run.explore("raw-proto-raw-deep-chains", run.tier.pick(6_000, 60_000), 2500, &deep_case);
    run.explore("proto-raw-proto", run.tier.pick(300_000, 3_000_000), 1200, &backward_case);
    // the same, each case in a thread of its own (per-thread state of the code starts from scratch)
    run.explore_fresh("proto-raw-proto", run.tier.pick(3_000, 40_000), 1200, &backward_case);
}
fn case(sub: &str) -> Option<Box<CaseFn<'static>>> {
    match sub {
        "raw-proto-raw" => Some(Box::new(forward_case)),
        "raw-proto-raw-deep-chains" => Some(Box::new(deep_case)),
        "proto-raw-proto" => Some(Box::new(backward_case)),
        _ => None,
    }
}
fn render(sub: &str, choices: &[u32]) -> Option<String> {
    let mut src = Src::new(choices);
    match sub {
        "raw-proto-raw" => Some(format!("{:?}", gen_rawlib(&mut src, &opts()))),
        "proto-raw-proto" => Some(format!("{:?}", gen_message(&mut src).0)),
        _ => None,
    }
}
