//! C18 — JSON and YAML copies of GDSII and LEF libraries are lossless.
use super::PropDef;
use crate::engine::{child::scratch_path, hash_of, CaseFn, Ctx, Run, Src};
use crate::gen::gds::{first_diff, gen_lib, to_gds, GdsGenOpts, MElem, MLib};
use crate::gen::lef::{gen_lef, LefGenOpts};
use layout21utils::{SerdeFile, SerializationFormat};

pub fn def() -> PropDef {
    PropDef { id: "C18", level: "exploration", run, case, render }
}

const HOSTILE: &[&str] = &[
    "\"", "'", ": ", " #", "#", "\\", "\\n", "\n", "\t", "- ", "? ", "~", "null", "yes", "no", "true", "1e3", "0x10", "0o7", ".inf", "1_000", "\u{85}", "\u{2028}", "\u{feff}", "😀", "é", "中",
    "{", "}", "[", "]", ",", "&a", "*a", "!t", "|", ">", "%", "@", "`", "---", "...", " ", "  ", "\r", "\u{7f}", "\u{1}", "a", "B", "0", "=", "<<", ",]", ", }", ",\n]", "[7:0,]", "\"\":", "//", "/*",
];
fn hostile_string(src: &mut Src) -> String {
    let n = src.usize_in(0, 5);
    let mut s = String::new();
    for _ in 0..n {
        s.push_str(*src.pick(HOSTILE));
    }
    s
}
fn needs_quoting(s: &str) -> bool {
    s.is_empty() || s != s.trim() || !s.chars().all(|c| c.is_ascii_alphanumeric()) || ["null", "yes", "no", "true", "false", "1e3", "0x10", "0o7"].contains(&s) || s.chars().all(|c| c.is_ascii_digit())
}
/// The three spellings of "save" and of "open" the library offers (format method, SerdeFile trait,
/// free function); which pair a case uses is derived from its content, so all nine get exercised.
fn save_any<T: SerdeFile>(how: u64, data: &T, path: &str, fmt: SerializationFormat) -> Result<(), String> {
    match how % 3 {
        0 => fmt.save(data, path).map_err(|e| e.to_string()),
        1 => SerdeFile::save(data, path, fmt).map_err(|e| e.to_string()),
        _ => layout21utils::ser::save(data, path, fmt).map_err(|e| e.to_string()),
    }
}
fn open_any<T: SerdeFile>(how: u64, path: &str, fmt: SerializationFormat) -> Result<T, String> {
    match how % 3 {
        0 => fmt.open::<T>(path).map_err(|e| e.to_string()),
        1 => <T as SerdeFile>::open(path, fmt).map_err(|e| e.to_string()),
        _ => layout21utils::ser::open::<T>(path, fmt).map_err(|e| e.to_string()),
    }
}
fn fmt_of(i: u64) -> (SerializationFormat, &'static str) {
    if i % 2 == 0 {
        (SerializationFormat::Json, "json")
    } else {
        (SerializationFormat::Yaml, "yaml")
    }
}

// ---- GDSII libraries ---------------------------------------------------------------------------------------
fn hostile_gds(src: &mut Src) -> MLib {
    let (mut m, _) = gen_lib(src, &GdsGenOpts { oversize: false, large_records: false, ..Default::default() });
    let mut fix = |s: &mut String, src: &mut Src| {
        if src.bool() {
            *s = hostile_string(src);
        }
    };
    fix(&mut m.name, src);
    for st in m.structs.iter_mut() {
        fix(&mut st.name, src);
        for e in st.elems.iter_mut() {
            match e {
                MElem::Sref { name, c, .. } | MElem::Aref { name, c, .. } => {
                    fix(name, src);
                    for p in c.props.iter_mut() {
                        fix(&mut p.1, src);
                    }
                }
                MElem::Text { string, c, .. } => {
                    fix(string, src);
                    for p in c.props.iter_mut() {
                        fix(&mut p.1, src);
                    }
                }
                MElem::Boundary { c, .. } | MElem::Path { c, .. } | MElem::Node { c, .. } | MElem::Box { c, .. } => {
                    for p in c.props.iter_mut() {
                        fix(&mut p.1, src);
                    }
                }
            }
        }
    }
    m
}
fn many_digits(bits: u64) -> bool {
    let x = f64::from_bits(bits);
    x != 0.0 && format!("{:?}", x).chars().filter(|c| c.is_ascii_digit()).count() >= 15
}
fn gds_case(src: &mut Src, ctx: &mut Ctx) -> Result<(), String> {
    let m = hostile_gds(src);
    let lib = to_gds(&m);
    let (fmt, fname) = fmt_of(src.below(2));
    let via_file = src.prob(1, 4);
    ctx.label(&format!("GDSII library through {}{}", fname, if via_file { " file" } else { " string" }));
    let quoting = m.strings().iter().any(|s| needs_quoting(s));
    let mut reals = vec![m.units.0, m.units.1];
    for s in &m.structs {
        for e in &s.elems {
            if let MElem::Sref { strans: Some(t), .. } | MElem::Aref { strans: Some(t), .. } | MElem::Text { strans: Some(t), .. } = e {
                reals.extend(t.mag);
                reals.extend(t.angle);
            }
        }
    }
    if quoting || reals.iter().any(|b| many_digits(*b)) {
        ctx.nontrivial(hash_of(&(&m, fname)));
    }
    if quoting {
        ctx.label("string needing quoting/escaping");
    }
    if reals.iter().any(|b| many_digits(*b)) {
        ctx.label("double with >= 15 significant digits");
    }
    ctx.sample(&format!("GDSII library ({})", fname), || {
        let mut s = format!("{:?}", m);
        crate::engine::clip(&mut s, 900);
        s
    });
    let back: gds21::GdsLibrary = if via_file {
        // file names with an extension, without one, and dot-files: save and open must agree on the file
        let path = scratch_path(match hash_of(&m) % 3 {
            0 => "c18-plain-name",
            1 => ".c18dotfile",
            _ => "c18.markup",
        });
        let h = hash_of(&(&m, 7u8));
        save_any(h, &lib, &path, fmt).map_err(|e| format!("save to {} failed: {}", fname, e))?;
        let r = open_any::<gds21::GdsLibrary>(h / 3, &path, fmt);
        let txt = std::fs::read_to_string(&path).unwrap_or_default();
        let _ = std::fs::remove_file(&path);
        r.map_err(|e| format!("{} file written by save() does not load: {}\n{}", fname, e, clip(&txt)))?
    } else {
        let s = fmt.to_string(&lib).map_err(|e| format!("to_string({}) failed: {}", fname, e))?;
        fmt.from_str(&s).map_err(|e| format!("{} text written by to_string() does not load: {}\n{}", fname, e, clip(&s)))?
    };
    // exact comparison, doubles by bits: the Debug rendering of an f64 is injective on bit patterns
    let (a, b) = (format!("{:?}", lib), format!("{:?}", back));
    if a != b {
        return Err(format!("GDSII library changed through {}; {}", fname, first_diff(&a, &b)));
    }
    Ok(())
}
fn clip(s: &str) -> String {
    let mut t = s.to_string();
    if t.len() > 600 {
        let mut c = 600;
        while !t.is_char_boundary(c) {
            c -= 1;
        }
        t.truncate(c);
    }
    t
}

// ---- LEF libraries ---------------------------------------------------------------------------------------------
fn hostile_lef(src: &mut Src) -> lef21::LefLibrary {
    let mut lib = gen_lef(src, &LefGenOpts::default());
    let mut fix = |s: &mut String, src: &mut Src| {
        if src.prob(1, 3) {
            *s = hostile_string(src);
        }
    };
    for m in lib.macros.iter_mut() {
        fix(&mut m.name, src);
        for p in m.properties.iter_mut() {
            fix(&mut p.name, src);
            fix(&mut p.value, src);
        }
        if let Some(f) = m.foreign.as_mut() {
            fix(&mut f.cell_name, src);
        }
        for pin in m.pins.iter_mut() {
            fix(&mut pin.name, src);
            if let Some(n) = pin.net_expr.as_mut() {
                fix(n, src);
            }
            for port in pin.ports.iter_mut() {
                for l in port.layers.iter_mut() {
                    fix(&mut l.layer_name, src);
                }
            }
        }
    }
    for x in lib.extensions.iter_mut() {
        fix(&mut x.name, src);
        fix(&mut x.data, src);
    }
    for v in lib.vias.iter_mut() {
        fix(&mut v.name, src);
    }
    for s in lib.sites.iter_mut() {
        fix(&mut s.name, src);
    }
    lib
}
fn lef_case(src: &mut Src, ctx: &mut Ctx) -> Result<(), String> {
    let lib = hostile_lef(src);
    let (fmt, fname) = fmt_of(src.below(2));
    let via_file = src.prob(1, 4);
    ctx.label(&format!("LEF library through {}{}", fname, if via_file { " file" } else { " string" }));
    if lib.fixed_mask || lib.macros.iter().any(|m| m.fixed_mask) {
        ctx.label("LEF FIXEDMASK set");
    }
    ctx.nontrivial(hash_of(&(format!("{:?}", lib), fname)));
    ctx.sample(&format!("LEF library ({})", fname), || {
        let mut s = format!("{:?}", lib);
        crate::engine::clip(&mut s, 900);
        s
    });
    let back: lef21::LefLibrary = if via_file {
        let path = scratch_path(&format!("c18lef.{}", fname));
        let h = hash_of(&format!("{:?}", lib));
        save_any(h, &lib, &path, fmt).map_err(|e| format!("save to {} failed: {}", fname, e))?;
        let r = open_any::<lef21::LefLibrary>(h / 3, &path, fmt);
        let txt = std::fs::read_to_string(&path).unwrap_or_default();
        let _ = std::fs::remove_file(&path);
        r.map_err(|e| format!("{} file written by save() does not load: {}\n{}", fname, e, clip(&txt)))?
    } else {
        let s = fmt.to_string(&lib).map_err(|e| format!("to_string({}) failed: {}", fname, e))?;
        fmt.from_str(&s).map_err(|e| format!("{} text written by to_string() does not load: {}\n{}", fname, e, clip(&s)))?
    };
    if back != lib {
        return Err(format!("LEF library changed through {}; {}", fname, first_diff(&format!("{:?}", lib), &format!("{:?}", back))));
    }
    Ok(())
}

// ---- GDSII file -> markup -> GDSII file -------------------------------------------------------------------------
/// Files of a few hundred kilobytes made mostly of multi-byte characters, at every alignment to any block
/// size a loader might read them in: saved and opened through each of the three API spellings, in both formats.
fn large_file_case(src: &mut Src, ctx: &mut Ctx) -> Result<(), String> {
    use gds21::*;
    let i = src.u64();
    let (fmt, fname) = fmt_of(i % 2);
    let api = (i / 2) % 3;
    let align = ((i / 6) % 4) as usize;
    let unit = ["中", "é", "😀", "ж"][((i / 24) % 4) as usize];
    let mut lib = GdsLibrary::new("big");
    let mut st = GdsStruct::new("s");
    for k in 0..5 {
        // 40 000 bytes or so each, preceded by 0-3 ASCII characters (which shift every later character)
        let body: String = std::iter::repeat(unit).take(40_000 / unit.len() + k).collect();
        st.elems.push(GdsElement::GdsTextElem(GdsTextElem { string: format!("{}{}", "x".repeat(if k == 0 { align } else { 0 }), body), layer: k as i16, texttype: 0, xy: GdsPoint::new(k as i32, 0), ..Default::default() }));
    }
    lib.structs.push(st);
    ctx.nontrivial(hash_of(&(i % 96)));
    ctx.label(&format!("200 KB {} file of {}-byte characters", fname, unit.len()));
    let path = scratch_path(&format!("c18.large.{}", fname));
    let r = (|| -> Result<(), String> {
        save_any(api, &lib, &path, fmt).map_err(|e| format!("save failed: {}", e))?;
        let back: GdsLibrary = open_any(api, &path, fmt).map_err(|e| format!("open of the file just saved failed: {}", e))?;
        if back != lib {
            let (a, b) = (format!("{:?}", lib), format!("{:?}", back));
            return Err(format!("library changed through a {} file of {} bytes; {}", fname, std::fs::metadata(&path).map(|m| m.len()).unwrap_or(0), first_diff(&a, &b)));
        }
        Ok(())
    })();
    let _ = std::fs::remove_file(&path);
    r
}
fn markup_case(src: &mut Src, ctx: &mut Ctx) -> Result<(), String> {
    use layout21converters::gds_serialization::{from_markup, to_markup, FromMarkupOptions, ToMarkupOptions};
    let mut m = hostile_gds(src);
    // unset (all-zero) time stamps now and then: they are data like any other
    match src.weighted(&[6, 1, 1]) {
        1 => m.dates = [0; 12],
        2 => {
            m.dates = [0; 12];
            for st in m.structs.iter_mut() {
                st.dates = [0; 12];
            }
        }
        _ => {}
    }
    let mut lib = to_gds(&m);
    // now and then an element with as many points as one XY record can hold (8191), or one fewer
    if !lib.structs.is_empty() && src.prob(1, 25) {
        let n = 8191 - src.usize_in(0, 1);
        let xy: Vec<gds21::GdsPoint> = (0..n).map(|i| gds21::GdsPoint::new(i as i32, (i % 7) as i32)).collect();
        let el = match src.below(3) {
            0 => gds21::GdsElement::GdsBoundary(gds21::GdsBoundary { layer: 5, datatype: 6, xy, ..Default::default() }),
            1 => gds21::GdsElement::GdsPath(gds21::GdsPath { layer: 5, datatype: 6, xy, ..Default::default() }),
            _ => gds21::GdsElement::GdsNode(gds21::GdsNode { layer: 5, nodetype: 6, xy, ..Default::default() }),
        };
        let k = src.index(lib.structs.len());
        lib.structs[k].elems.push(el);
        ctx.label("an element with the most points a record can hold");
    }
    let (_, fname) = fmt_of(src.below(2));
    // the converters' chatty mode prints statistics; it must not change what is converted
    let (verbose_to, verbose_from) = (src.bool(), src.bool());
    let gds_in = scratch_path("c18.in.gds");
    let mk = scratch_path(&format!("c18.markup.{}", fname));
    let gds_out = scratch_path("c18.out.gds");
    if lib.save(&gds_in).is_err() {
        ctx.refused("GDSII write refused");
        return Ok(());
    }
    ctx.label(&format!("GDSII file -> {} -> GDSII file", fname));
    // (labelled below once known) 
    ctx.nontrivial(hash_of(&(&m, fname, 1)));
    // one time in three the markup path has just been used for another library (a conversion's
    // result must come from its input, not from what the output path held before)
    let reuse = src.prob(1, 3);
    let r = (|| -> Result<(), String> {
        if reuse {
            let other = to_gds(&hostile_gds(src));
            let gds_other = scratch_path("c18.other.gds");
            if other.save(&gds_other).is_ok() {
                let _ = to_markup(&ToMarkupOptions { gds: gds_other.clone(), fmt: fname.to_string(), out: mk.clone(), verbose: false });
            }
            let _ = std::fs::remove_file(&gds_other);
        }
        to_markup(&ToMarkupOptions { gds: gds_in.clone(), fmt: fname.to_string(), out: mk.clone(), verbose: verbose_to }).map_err(|e| format!("to_markup failed: {}", e))?;
        from_markup(&FromMarkupOptions { gds: gds_out.clone(), fmt: fname.to_string(), inp: mk.clone(), verbose: verbose_from }).map_err(|e| format!("from_markup failed: {}", e))?;
        let a = std::fs::read(&gds_in).map_err(|e| e.to_string())?;
        let b = std::fs::read(&gds_out).map_err(|e| e.to_string())?;
        if a != b {
            let i = a.iter().zip(b.iter()).position(|(x, y)| x != y).unwrap_or(a.len().min(b.len()));
            return Err(format!("GDSII bytes differ after the {} round trip: {} vs {} bytes, first difference at byte {}", fname, a.len(), b.len(), i));
        }
        Ok(())
    })();
    for p in [&gds_in, &mk, &gds_out] {
        let _ = std::fs::remove_file(p);
    }
    r
}

// ---- histories: several saves to one path, then open -------------------------------------------------------
fn overwrite_case(src: &mut Src, ctx: &mut Ctx) -> Result<(), String> {
    let (fmt, fname) = fmt_of(src.below(2));
    let n = src.usize_in(2, 4);
    let path = scratch_path(&format!("c18.hist.{}", fname));
    let mut last: Option<String> = None;
    let mut sizes = vec![];
    let r = (|| -> Result<(), String> {
        for _ in 0..n {
            let lib = to_gds(&hostile_gds(src));
            SerdeFile::save(&lib, &path, fmt).map_err(|e| format!("save to {} failed: {}", fname, e))?;
            sizes.push(std::fs::metadata(&path).map(|m| m.len()).unwrap_or(0));
            last = Some(format!("{:?}", lib));
        }
        let back = <gds21::GdsLibrary as SerdeFile>::open(&path, fmt).map_err(|e| format!("after {} saves to one path (file sizes {:?}) the {} file does not load: {}", n, sizes, fname, e))?;
        let b = format!("{:?}", back);
        if Some(&b) != last.as_ref() {
            return Err(format!("after {} saves to one path (file sizes {:?}) open() does not return the last library saved; {}", n, sizes, first_diff(last.as_ref().unwrap(), &b)));
        }
        Ok(())
    })();
    let _ = std::fs::remove_file(&path);
    if sizes.windows(2).any(|w| w[1] < w[0]) {
        ctx.label("history: a shorter file saved over a longer one");
        ctx.nontrivial(hash_of(&(&sizes, fname)));
    }
    ctx.sample("save history", || format!("{} saves to one {} path, sizes {:?}", n, fname, sizes));
    r
}

// ---- scalar sweeps ------------------------------------------------------------------------------------------------
fn scalar_case(src: &mut Src, ctx: &mut Ctx) -> Result<(), String> {
    let (fmt, fname) = fmt_of(src.below(2));
    ctx.extra_evals(15);
    let mut units = vec![];
    for _ in 0..16 {
        units.push(crate::gen::gds::gen_real(src));
    }
    // sixteen doubles per library, as MAG/ANGLE of eight references
    let mut lib = gds21::GdsLibrary::new(hostile_string(src));
    let mut s = gds21::GdsStruct::new(hostile_string(src));
    for k in 0..8 {
        s.elems.push(gds21::GdsElement::GdsStructRef(gds21::GdsStructRef {
            name: hostile_string(src),
            xy: gds21::GdsPoint::new(k, -k),
            strans: Some(gds21::GdsStrans { mag: Some(f64::from_bits(units[2 * k as usize])), angle: Some(f64::from_bits(units[2 * k as usize + 1])), ..Default::default() }),
            ..Default::default()
        }));
    }
    lib.structs.push(s);
    for u in &units {
        if many_digits(*u) {
            ctx.nontrivial(hash_of(&(u, fname)));
        }
    }
    let txt = fmt.to_string(&lib).map_err(|e| format!("to_string({}) failed: {}", fname, e))?;
    let back: gds21::GdsLibrary = fmt.from_str(&txt).map_err(|e| format!("{} does not load: {}", fname, e))?;
    let (a, b) = (format!("{:?}", lib), format!("{:?}", back));
    if a != b {
        return Err(format!("doubles/strings changed through {}; {}", fname, first_diff(&a, &b)));
    }
    Ok(())
}

fn run(run: &mut Run) {
    run.rule("G-gds and G-lef library values with half / a third of their string fields replaced by strings built from characters that are special in JSON/YAML (quotes, ': ', ' #', backslash, leading/trailing blanks, newlines, tabs, '- ', '? ', '~', null, yes, 1e3, 0x10, NEL/LS/BOM, emoji, control characters), doubles from the whole GDSII range; x {JSON, YAML} x {to_string/from_str, save/open}; GDSII file -> to_markup -> from_markup -> GDSII bytes; scalar sweeps of 16 doubles per case. Oracle: loaded value equals the original, doubles by bit pattern (Debug rendering), decimals by value, bytes identical. Non-trivial = a string needing quoting/escaping or a double with >= 15 significant digits; distinct by hash of (value, format).");
    run.assume("TOML is not in the property; the markup text itself is not compared");
    run.assume("the harness enables no serde_json / rust_decimal / serde_yaml feature that the repository does not enable itself");
    run.min_nontrivial = 300;
    run.explore("gds-markup", run.tier.pick(80_000, 800_000), 1800, &gds_case);
    run.explore("lef-markup", run.tier.pick(50_000, 500_000), 2600, &lef_case);
    run.explore("gds-file-markup-file", run.tier.pick(20_000, 200_000), 1800, &markup_case);
    run.enumerate("large-files", 96, &large_file_case);
    run.explore("save-histories", run.tier.pick(10_000, 100_000), 4000, &overwrite_case);
    run.explore("scalars", run.tier.pick(30_000, 500_000), 120, &scalar_case);
}
fn case(sub: &str) -> Option<Box<CaseFn<'static>>> {
    match sub {
        "gds-markup" => Some(Box::new(gds_case)),
        "lef-markup" => Some(Box::new(lef_case)),
        "gds-file-markup-file" => Some(Box::new(markup_case)),
        "large-files" => Some(Box::new(large_file_case)),
        "scalars" => Some(Box::new(scalar_case)),
        "save-histories" => Some(Box::new(overwrite_case)),
        _ => None,
    }
}
fn render(sub: &str, choices: &[u32]) -> Option<String> {
    let mut src = Src::new(choices);
    match sub {
        "gds-markup" | "gds-file-markup-file" => Some(format!("{:?}", hostile_gds(&mut src))),
        "lef-markup" => Some(format!("{:?}", hostile_lef(&mut src))),
        _ => None,
    }
}
