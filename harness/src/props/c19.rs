//! C19 — gridded-layout libraries survive the trip through their protobuf schema.
use super::PropDef;
use crate::engine::{hash_of, CaseFn, Ctx, Run, Src};
use layout21tetris as tet;
use layout21utils::Ptr;
use tet::cell::Cell;
use tet::conv::proto::{ProtoExporter, ProtoLibImporter};
use tet::instance::Instance;
use tet::layout::Layout;
use tet::outline::Outline;
use tet::placement::Place;
use tet::protos::tetris as tproto;
use tet::stack::Assign;
use tet::tracks::{TrackCross, TrackRef};

pub fn def() -> PropDef {
    PropDef { id: "C19", level: "exploration", run, case, render }
}
type P = (i64, i64);
type TC = (usize, usize, usize, usize);
#[derive(Clone, Debug, PartialEq, Eq, Hash)]
struct MInst {
    name: String,
    target: usize,
    loc: P,
    rh: bool,
    rv: bool,
}
#[derive(Clone, Debug, PartialEq, Eq, Hash)]
struct MCell {
    name: String,
    has_layout: bool,
    has_abs: bool,
    ox: Vec<i64>,
    oy: Vec<i64>,
    metals: usize,
    insts: Vec<MInst>,
    assigns: Vec<(String, TC)>,
    cuts: Vec<TC>,
    /// outline and metal count of the abstract view when the cell has both views and they differ
    /// (the two views are independent values: an abstract may be the bounding box of a stepped layout)
    abs_own: Option<(Vec<i64>, Vec<i64>, usize)>,
}
#[derive(Clone, Debug, PartialEq, Eq, Hash)]
struct MLib {
    name: String,
    cells: Vec<MCell>,
    listing: Vec<usize>,
}
/// Instance locations: ordinary, or (one in sixteen) a coordinate at the very end of the integer range
fn gen_loc(src: &mut Src) -> P {
    let mut p = (src.signed(1000), src.signed(1000));
    if src.prob(1, 16) {
        let e = *src.pick(&[i64::MIN, i64::MAX, i64::MIN + 1, -(i32::MAX as i64) - 1, i32::MAX as i64 + 1]);
        if src.bool() {
            p.0 = e;
        } else {
            p.1 = e;
        }
    }
    p
}
fn gen_outline(src: &mut Src) -> (Vec<i64>, Vec<i64>) {
    let n = src.usize_in(1, 4);
    let mut x: Vec<i64> = (0..n).map(|_| src.i64_in(0, 50)).collect();
    let mut y: Vec<i64> = (0..n).map(|_| src.i64_in(0, 50)).collect();
    x.sort();
    x.reverse(); // non-increasing (ties allowed)
    y.sort(); // non-decreasing
    (x, y)
}
fn gen_tc(src: &mut Src) -> TC {
    (src.usize_in(0, 5), src.usize_in(0, 40), src.usize_in(0, 5), src.usize_in(0, 40))
}
fn gen_lib(src: &mut Src) -> MLib {
    let nc = src.usize_in(1, 5);
    let mut cells: Vec<MCell> = vec![];
    for ci in 0..nc {
        let (ox, oy) = gen_outline(src);
        let has_layout = ci == 0 || !src.prob(1, 6);
        let targets: Vec<usize> = (0..ci).collect();
        let ni = if has_layout && !targets.is_empty() { src.usize_in(0, 4) } else { 0 };
        let insts = (0..ni)
            .map(|k| MInst { name: format!("{}{}", src.pick(&["i", "Inst<", "x.y_", "экземпляр_Ωμέγα_中文字符中文字符中文字符中文字符中文字符中文字符_"]), k), target: if src.bool() { ci - 1 } else { targets[src.index(targets.len())] }, loc: gen_loc(src), rh: src.bool(), rv: src.bool() })
            .collect();
        let na = if has_layout { src.usize_in(0, 3) } else { 0 };
        let ncut = if has_layout { src.usize_in(0, 3) } else { 0 };
        cells.push(MCell {
            // names may begin or end with blanks, and the first cell's may be the empty string: they are data
            name: { let pat = *src.pick(&["tc{}", "tc{}", "tc{}", "tc{} ", " tc{}", "tc{}\t", "tc{}_αβγδεζηθικλμνξοπρστυφχψω_中文字符中文字符中文字符中文字符中文字符"]); let n = pat.replace("{}", &ci.to_string()); if ci == 0 && src.prob(1, 10) { String::new() } else { n } },
            has_layout,
            // a cell without a layout usually has an abstract; one time in four it has no view at all (a black box)
            has_abs: if has_layout { src.prob(1, 4) } else { !src.prob(1, 4) },
            ox,
            oy,
            metals: src.usize_in(0, 5),
            insts,
            assigns: (0..na).map(|_| (src.pick(&["a", "VDD", "net[3]", ""]).to_string(), gen_tc(src))).collect(),
            cuts: (0..ncut).map(|_| gen_tc(src)).collect(),
            abs_own: None,
        });
        let c = cells.last_mut().unwrap();
        if c.has_layout && c.has_abs && src.prob(1, 3) {
            c.abs_own = Some(match src.below(3) {
                0 => (vec![c.ox[0]], vec![c.oy[0]], c.metals),
                1 => (c.ox.clone(), c.oy.clone(), c.metals + 1),
                _ => {
                    let (x, y) = gen_outline(src);
                    (x, y, src.usize_in(0, 5))
                }
            });
            if c.abs_own == Some((c.ox.clone(), c.oy.clone(), c.metals)) {
                c.abs_own = None;
            }
        }
    }
    let mut listing: Vec<usize> = (0..nc).collect();
    src.shuffle(&mut listing);
    // a cell may be instantiated without being listed (it lives in another library's list): the export
    // carries it all the same, before its users
    if src.prob(1, 8) {
        let cands: Vec<usize> = (0..nc).filter(|x| (0..nc).any(|y| y != *x && cells[y].has_layout && cells[y].insts.iter().any(|i| i.target == *x))).collect();
        if !cands.is_empty() {
            let x = cands[src.index(cands.len())];
            // every user of x that stays listed keeps x reachable; x's own users above it may be unlisted only if x is
            if (0..nc).any(|y| y != x && cells[y].insts.iter().any(|i| i.target == x)) {
                listing.retain(|c| *c != x);
            }
        }
    }
    MLib { name: src.pick(&["tlib", "T L", ""]).to_string(), cells, listing }
}
fn tc(t: &TC) -> TrackCross {
    TrackCross::new(TrackRef::new(t.0, t.1), TrackRef::new(t.2, t.3))
}
fn build(m: &MLib) -> tet::library::Library {
    let mut ptrs: Vec<Ptr<Cell>> = vec![];
    for (ci, c) in m.cells.iter().enumerate() {
        // built field by field: whether the importer accepts a documented-valid outline is part of the check
        let outline = Outline { x: c.ox.iter().map(|v| tet::coords::PrimPitches::x(*v as isize)).collect(), y: c.oy.iter().map(|v| tet::coords::PrimPitches::y(*v as isize)).collect() };
        let mut cell = Cell::new(c.name.clone());
        if c.has_layout {
            // a view's own name need not be the cell's (every third cell: distinct view names)
            // ... and now and then it is the name of another, earlier cell (a layout cloned from it and never renamed)
            let view_name = if ci > 0 && (c.metals + c.insts.len() + ci) % 6 == 2 {
                m.cells[(c.insts.len() + c.metals) % ci].name.clone()
            } else if c.name.len() % 3 == 0 || c.metals % 3 == 1 {
                format!("{}_impl", c.name)
            } else {
                c.name.clone()
            };
            let mut l = Layout::new(view_name, c.metals, outline.clone());
            for i in &c.insts {
                l.instances.add(Instance { inst_name: i.name.clone(), cell: ptrs[i.target].clone(), loc: Place::Abs((i.loc.0 as isize, i.loc.1 as isize).into()), reflect_horiz: i.rh, reflect_vert: i.rv });
            }
            for (n, t) in &c.assigns {
                l.assignments.push(Assign::new(n.clone(), tc(t)));
            }
            for t in &c.cuts {
                l.cuts.push(tc(t));
            }
            cell.layout = Some(l);
        }
        if c.has_abs {
            let abs_name = if c.metals % 3 == 2 { format!("{}_abs", c.name) } else { c.name.clone() };
            cell.abs = Some(match &c.abs_own {
                None => tet::abs::Abstract::new(abs_name, c.metals, outline),
                Some((x, y, m)) => tet::abs::Abstract::new(abs_name, *m, Outline { x: x.iter().map(|v| tet::coords::PrimPitches::x(*v as isize)).collect(), y: y.iter().map(|v| tet::coords::PrimPitches::y(*v as isize)).collect() }),
            });
        }
        ptrs.push(Ptr::new(cell));
    }
    let mut lib = tet::library::Library::new(m.name.clone());
    for &i in &m.listing {
        lib.cells.push(ptrs[i].clone());
    }
    lib
}
fn read_back(lib: &tet::library::Library) -> Result<Vec<MCell>, String> {
    let mut out = vec![];
    for cp in lib.cells.iter() {
        let c = cp.read().map_err(|_| "lock")?;
        let mut mc = MCell { name: c.name.clone(), has_layout: c.layout.is_some(), has_abs: c.abs.is_some(), ox: vec![], oy: vec![], metals: 0, insts: vec![], assigns: vec![], cuts: vec![], abs_own: None };
        let (outline, metals) = match (&c.layout, &c.abs) {
            (Some(l), _) => (l.outline.clone(), l.metals),
            (None, Some(a)) => (a.outline.clone(), a.metals),
            (None, None) => {
                // a black box: nothing but its name
                out.push(mc);
                continue;
            }
        };
        if let (Some(l), Some(a)) = (&c.layout, &c.abs) {
            if l.outline != a.outline || l.metals != a.metals {
                mc.abs_own = Some((a.outline.x.iter().map(|p| p.num as i64).collect(), a.outline.y.iter().map(|p| p.num as i64).collect(), a.metals));
            }
        }
        mc.ox = outline.x.iter().map(|p| p.num as i64).collect();
        mc.oy = outline.y.iter().map(|p| p.num as i64).collect();
        mc.metals = metals;
        if let Some(l) = &c.layout {
            for ip in l.instances.iter() {
                let i = ip.read().map_err(|_| "lock")?;
                let loc = i.loc.abs().map_err(|e| format!("{:?}", e))?;
                let tname = i.cell.read().map_err(|_| "lock")?.name.clone();
                // (only the first cell may be named by the empty string)
                let target: usize = if tname.is_empty() { 0 } else { tname.trim().strip_prefix("tc").map(|s| s.chars().take_while(|c| c.is_ascii_digit()).collect::<String>()).and_then(|s| s.parse().ok()).ok_or("target name")? };
                mc.insts.push(MInst { name: i.inst_name.clone(), target, loc: (loc.x.num as i64, loc.y.num as i64), rh: i.reflect_horiz, rv: i.reflect_vert });
            }
            for a in &l.assignments {
                mc.assigns.push((a.net.clone(), (a.at.track.layer, a.at.track.track, a.at.cross.layer, a.at.cross.track)));
            }
            for t in &l.cuts {
                mc.cuts.push((t.track.layer, t.track.track, t.cross.layer, t.cross.track));
            }
        }
        out.push(mc);
    }
    Ok(out)
}
fn roundtrip_case(src: &mut Src, ctx: &mut Ctx) -> Result<(), String> {
    let m = gen_lib(src);
    check_roundtrip(&m, ctx)
}
/// A library of some dozens of cells: a tower of levels, each instantiating the level below and a leaf or two,
/// listed bottom-up with the leaves in between (creation order), top-down, or shuffled.
fn large_case(src: &mut Src, ctx: &mut Ctx) -> Result<(), String> {
    let n = src.usize_in(24, 150);
    let mut cells: Vec<MCell> = vec![];
    let mut last_level: Option<usize> = None;
    let mut leaves: Vec<usize> = vec![];
    for ci in 0..n {
        let is_leaf = ci == 0 || src.prob(1, 3);
        let mut insts = vec![];
        if !is_leaf {
            if let Some(l) = last_level {
                insts.push(MInst { name: "below".into(), target: l, loc: (src.signed(100), src.signed(100)), rh: src.bool(), rv: src.bool() });
            }
            for k in 0..src.usize_in(0, 2) {
                if !leaves.is_empty() {
                    // half the time the leaf the level below uses as well (a cell shared between neighbouring levels)
                    let shared = last_level.and_then(|l| cells[l].insts.iter().map(|i| i.target).find(|t| leaves.contains(t)));
                    let target = match shared {
                        Some(t) if src.bool() => t,
                        _ => leaves[src.index(leaves.len())],
                    };
                    insts.push(MInst { name: format!("leaf{}", k), target, loc: (src.signed(100), src.signed(100)), rh: false, rv: src.bool() });
                }
            }
        }
        cells.push(MCell { name: format!("tc{}", ci), has_layout: true, has_abs: false, ox: vec![src.i64_in(1, 50)], oy: vec![src.i64_in(1, 50)], metals: src.usize_in(0, 3), insts, assigns: vec![], cuts: vec![], abs_own: None });
        if is_leaf {
            leaves.push(ci);
        } else {
            last_level = Some(ci);
        }
    }
    let mut listing: Vec<usize> = (0..n).collect();
    let how = src.below(3);
    match how {
        0 => {}
        1 => listing.reverse(),
        _ => src.shuffle(&mut listing),
    }
    ctx.label(&format!("library of {} cells listed {}", if n < 48 { "24-47" } else if n < 100 { "48-99" } else { "100-150" }, ["bottom-up", "top-down", "shuffled"][how as usize]));
    let m = MLib { name: "big".into(), cells, listing };
    ctx.nontrivial(hash_of(&m));
    check_roundtrip(&m, ctx)
}
fn check_roundtrip(m: &MLib, ctx: &mut Ctx) -> Result<(), String> {
    let m = m.clone();
    let lib = build(&m);
    let plib = ProtoExporter::export(&lib).map_err(|e| format!("export failed: {:?}", e))?;
    // exporting is a function of the library: a second call on the same value gives the same message
    match ProtoExporter::export(&lib) {
        Ok(again) if again == plib => {}
        Ok(_) => return Err("export called twice on one library gave two different messages".into()),
        Err(e) => return Err(format!("export succeeded, then failed when called again on the same library: {:?}", e)),
    }
    // cells after the cells they instantiate
    let pos = |n: &str| plib.cells.iter().position(|c| c.name == n);
    for c in &m.cells {
        for i in &c.insts {
            let (a, b) = (pos(&c.name).ok_or("cell missing from export")?, pos(&m.cells[i.target].name).ok_or("target missing from export")?);
            if b > a {
                return Err(format!("exported cell list has {} before {}, which it instantiates", c.name, m.cells[i.target].name));
            }
        }
    }
    let rich = m.cells.len() >= 2 && m.cells.iter().any(|c| c.insts.iter().any(|i| i.rh || i.rv)) && m.cells.iter().any(|c| !c.assigns.is_empty()) && m.cells.iter().any(|c| !c.cuts.is_empty());
    if rich {
        ctx.nontrivial(hash_of(&m));
    }
    if m.cells.iter().any(|c| c.ox.len() > 1) {
        ctx.label("stepped outline");
    }
    if m.cells.iter().any(|c| c.ox.windows(2).any(|w| w[0] == w[1]) || c.oy.windows(2).any(|w| w[0] == w[1])) {
        ctx.label("outline with a repeated coordinate");
    }
    if m.cells.iter().any(|c| c.insts.iter().any(|i| i.rh != i.rv)) {
        ctx.label("instance reflected in exactly one axis");
    }
    ctx.sample("gridded-layout library", || {
        let mut s = format!("{:?}", m);
        crate::engine::clip(&mut s, 1200);
        s
    });
    let back = ProtoLibImporter::import(&plib).map_err(|e| format!("import of the exported library failed: {:?}", e))?;
    if back.name != m.name {
        return Err(format!("library name {:?} came back as {:?}", m.name, back.name));
    }
    let mut got = read_back(&back)?;
    let mut want: Vec<MCell> = m.cells.clone();
    got.sort_by(|a, b| a.name.cmp(&b.name));
    want.sort_by(|a, b| a.name.cmp(&b.name));
    // the statement lists what is preserved, not in which order: compare the lists as multisets
    for c in got.iter_mut().chain(want.iter_mut()) {
        if !c.has_layout && !c.has_abs {
            // a cell without any view carries nothing but its name (the model's outline was never built)
            c.ox.clear();
            c.oy.clear();
            c.metals = 0;
        }
        c.insts.sort_by(|a, b| format!("{:?}", a).cmp(&format!("{:?}", b)));
        c.assigns.sort();
        c.cuts.sort();
    }
    if got != want {
        let i = got.iter().zip(want.iter()).position(|(a, b)| a != b).unwrap_or(0);
        return Err(format!("library changed through the protobuf schema.\n exported {:?}\n came back {:?}", want.get(i), got.get(i)));
    }
    Ok(())
}

// ---- negative messages: each mandatory sub-message removed in turn, and unsupported constructs --------------
const FAULTS: &[&str] = &["layout outline removed", "instance location removed", "instance inner place removed", "instance cell reference removed", "reference target removed", "cut track removed", "cut cross removed", "assignment location removed", "assignment track removed", "reference to an undefined cell", "relative placement", "external reference", "outline with increasing x", "outline with decreasing y", "negative track number", "abstract outline removed", "an instantiated cell removed from the message", "cells listed users first", "every cell without instances removed", "outline without a single step", "outline with more x than y steps", "abstract outline without a single step"];
fn negative_case(src: &mut Src, ctx: &mut Ctx) -> Result<(), String> {
    let m = gen_lib(src);
    let lib = build(&m);
    let mut plib = match ProtoExporter::export(&lib) {
        Ok(p) => p,
        Err(_) => {
            ctx.refused("export failed");
            return Ok(());
        }
    };
    let kind = src.index(FAULTS.len());
    // pick a site where the fault applies
    let mut applied = false;
    let ncells = plib.cells.len();
    let start = src.index(ncells);
    // message-level faults: the reference that dangles may sit in the very first cell of the message
    let has_insts = |c: &tproto::Cell| c.layout.as_ref().map(|l| !l.instances.is_empty()).unwrap_or(false);
    let target_of = |i: &tproto::Instance| match i.cell.as_ref().and_then(|r| r.to.as_ref()) {
        Some(tet::protos::utils::reference::To::Local(n)) => Some(n.clone()),
        _ => None,
    };
    let message_level = (16..=18).contains(&kind);
    if message_level {
        match kind {
            16 => {
                let used: Vec<String> = plib.cells.iter().filter_map(|c| c.layout.as_ref()).flat_map(|l| l.instances.iter().filter_map(|i| target_of(i))).collect();
                let cands: Vec<usize> = (0..ncells).filter(|j| used.contains(&plib.cells[*j].name)).collect();
                if !cands.is_empty() {
                    let j = cands[start % cands.len()];
                    plib.cells.remove(j);
                    applied = true;
                }
            }
            17 => {
                if plib.cells.iter().any(|c| has_insts(c)) {
                    plib.cells.reverse();
                    applied = true;
                }
            }
            _ => {
                if plib.cells.iter().any(|c| has_insts(c)) {
                    plib.cells.retain(|c| has_insts(c));
                    applied = true;
                }
            }
        }
    }
    for off in 0..ncells {
        if message_level {
            break;
        }
        let c = &mut plib.cells[(start + off) % ncells];
        match kind {
            15 => {
                if let Some(a) = c.r#abstract.as_mut() {
                    a.outline = None;
                    applied = true;
                }
            }
            21 => {
                if let Some(a) = c.r#abstract.as_mut() {
                    a.outline = Some(tproto::Outline::default());
                    applied = true;
                }
            }
            _ => {
                if let Some(l) = c.layout.as_mut() {
                    applied = match kind {
                        0 => {
                            l.outline = None;
                            true
                        }
                        1 | 2 | 3 | 4 | 9 | 10 | 11 => {
                            // (any instance of the layout, not just its first)
                            let ni = l.instances.len();
                            if let Some(i) = l.instances.get_mut(start % ni.max(1)) {
                                match kind {
                                    1 => i.loc = None,
                                    2 => i.loc = Some(tproto::Place { place: None }),
                                    3 => i.cell = None,
                                    4 => i.cell = Some(tet::protos::utils::Reference { to: None }),
                                    9 => i.cell = Some(tet::protos::utils::Reference { to: Some(tet::protos::utils::reference::To::Local("no_such_cell".into())) }),
                                    10 => i.loc = Some(tproto::Place { place: Some(tproto::place::Place::Rel(tproto::RelPlace::default())) }),
                                    _ => i.cell = Some(tet::protos::utils::Reference { to: Some(tet::protos::utils::reference::To::External(Default::default())) }),
                                }
                                true
                            } else {
                                false
                            }
                        }
                        5 | 6 | 14 => {
                            if let Some(t) = l.cuts.first_mut() {
                                match kind {
                                    5 => t.track = None,
                                    6 => t.cross = None,
                                    _ => t.track = Some(tproto::TrackRef { layer: 1, track: -3 }),
                                }
                                true
                            } else {
                                false
                            }
                        }
                        7 | 8 => {
                            if let Some(a) = l.assignments.first_mut() {
                                if kind == 7 {
                                    a.at = None;
                                } else if let Some(at) = a.at.as_mut() {
                                    at.track = None;
                                }
                                true
                            } else {
                                false
                            }
                        }
                        19 => {
                            l.outline = Some(tproto::Outline::default());
                            true
                        }
                        20 => {
                            if let Some(o) = l.outline.as_mut() {
                                let last = *o.x.last().unwrap_or(&1);
                                o.x.push(last);
                            }
                            true
                        }
                        12 => {
                            if let Some(o) = l.outline.as_mut() {
                                o.x = vec![3, 5];
                                o.y = vec![1, 2];
                            }
                            true
                        }
                        _ => {
                            if let Some(o) = l.outline.as_mut() {
                                o.x = vec![5, 3];
                                o.y = vec![4, 2];
                            }
                            true
                        }
                    };
                }
            }
        }
        if applied {
            break;
        }
    }
    if !applied {
        ctx.excluded("fault kind has no site in this message");
        return Ok(());
    }
    ctx.label(&format!("negative: {}", FAULTS[kind]));
    ctx.nontrivial(hash_of(&format!("{:?}{}", plib, kind)));
    match ProtoLibImporter::import(&plib) {
        Err(_) => Ok(()),
        Ok(_) => Err(format!("protobuf library with '{}' was imported instead of reported as an error", FAULTS[kind])),
    }
}
fn run(run: &mut Run) {
    run.rule("Placed gridded-layout libraries: 1-5 cells forming a DAG in shuffled listing order, stepped outlines of 1-4 steps (ties allowed), 0-5 metals, instances with all four reflection combinations and arbitrary locations (the ends of the integer range included), arbitrary assignments and cuts, abstract views without ports; export, check cell order, import, compare every field. Negative messages: the exported message with one of 22 faults (each mandatory sub-message removed, an outline without steps or with lists of unequal length, undefined/external reference, an instantiated cell removed, cells listed users first, all leaf cells removed - the dangling reference may be in the first cell, relative placement, non-monotone outline, negative track) must be an error, not a crash. Non-trivial = >= 2 cells, a reflected instance, an assignment and a cut; distinct by hash.");
    run.assume("abstract ports are not generated: their import is todo!() and they are not in the statement's field list");
    run.min_nontrivial = 200;
    run.explore("roundtrip", run.tier.pick(500_000, 5_000_000), 500, &roundtrip_case);
    // the same, each case in a thread of its own (per-thread state of the code starts from scratch)
    run.explore_fresh("roundtrip", run.tier.pick(3_000, 40_000), 500, &roundtrip_case);
    run.explore("negative", run.tier.pick(200_000, 2_000_000), 520, &negative_case);
    run.explore("roundtrip-large", run.tier.pick(6_000, 60_000), 4000, &large_case);
}
fn case(sub: &str) -> Option<Box<CaseFn<'static>>> {
    match sub {
        "roundtrip" => Some(Box::new(roundtrip_case)),
        "negative" => Some(Box::new(negative_case)),
        "roundtrip-large" => Some(Box::new(large_case)),
        _ => None,
    }
}
fn render(sub: &str, choices: &[u32]) -> Option<String> {
    let mut src = Src::new(choices);
    match sub {
        "roundtrip" | "negative" => Some(format!("{:?}", gen_lib(&mut src))),
        _ => None,
    }
}
