//! Thin adapters over public entry points whose return type (plain value vs `Result`) differs
//! between the tree as found and the repaired tree. Both shapes are accepted at compile time.
use layout21raw as raw;
use layout21tetris as tet;
use layout21utils::Ptr;

pub trait IntoRes<T> {
    fn into_res(self) -> Result<T, String>;
}
impl<T> IntoRes<Vec<T>> for Vec<T> {
    fn into_res(self) -> Result<Vec<T>, String> {
        Ok(self)
    }
}
impl<T, E: std::fmt::Debug> IntoRes<Vec<T>> for Result<Vec<T>, E> {
    fn into_res(self) -> Result<Vec<T>, String> {
        self.map_err(|e| format!("{:?}", e))
    }
}
pub fn raw_dep_order(lib: &raw::Library) -> Result<Vec<Ptr<raw::Cell>>, String> {
    IntoRes::<Vec<Ptr<raw::Cell>>>::into_res(raw::DepOrder::order(lib))
}
pub fn tetris_dep_order(lib: &tet::library::Library) -> Result<Vec<Ptr<tet::cell::Cell>>, String> {
    IntoRes::<Vec<Ptr<tet::cell::Cell>>>::into_res(lib.dep_order())
}
