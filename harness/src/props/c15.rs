//! C15 — the GDSII real-number codec is exact over the format's range.
use super::PropDef;
use crate::engine::{CaseFn, Ctx, Run, Src};
use crate::refmodel::gdsreal as R;
use gds21::GdsFloat64;

pub fn def() -> PropDef {
    PropDef { id: "C15", level: "exploration", run, case, render }
}

const EMIN: i64 = -260; // 2^-260 = 16^-65: the smallest normalised real (mantissa 1/16, exponent byte 0)
const EMAX: i64 = 251; // 2^251 .. < 2^252

fn pow2(e: i64) -> f64 {
    f64::from_bits(((e + 1023) as u64) << 52)
}

/// All encode-side obligations for one in-range double.
fn check_encode(x: f64, ctx: &mut Ctx) -> Result<(), String> {
    debug_assert!(R::in_range(x));
    let want = R::encode(x);
    let got = GdsFloat64::encode(x);
    let near_pow16 = {
        // within 16 ulp of a power of sixteen?
        let b = x.abs().to_bits();
        let mut near = false;
        for d in -16i64..=16 {
            let nb = (b as i64 + d) as u64;
            let frac = nb & ((1u64 << 52) - 1);
            let e = ((nb >> 52) & 0x7ff) as i64 - 1023;
            if frac == 0 && e.rem_euclid(4) == 0 {
                near = true;
            }
        }
        near
    };
    let sig = 53 - (x.to_bits() | (1 << 52)).trailing_zeros().min(52);
    if near_pow16 || sig >= 50 {
        ctx.nontrivial(x.to_bits());
    }
    if near_pow16 {
        ctx.label("encode: within 16 ulp of a power of sixteen");
    }
    if x != 0.0 {
        let e = ((x.abs().to_bits() >> 52) & 0x7ff) as i64 - 1023;
        ctx.label(if e < -256 { "encode: lowest band [16^-65, 16^-64)" } else if e >= 248 { "encode: top exponent [16^62, 16^63)" } else if e < 0 { "encode: |x| < 1" } else { "encode: |x| >= 1" });
        ctx.label(if x < 0.0 { "encode: negative" } else { "encode: positive" });
        ctx.label(&format!("encode: binary exponent = {} mod 4", e.rem_euclid(4)));
    }
    if got != want {
        return Err(format!(
            "encode({:e} = bits {:#018x}) = {:#018x}, the normalised exact encoding is {:#018x} (normalised: {}, same value: {})",
            x, x.to_bits(), got, want, R::is_normalised(got), R::same_value(got, x)
        ));
    }
    let back = GdsFloat64::decode(got);
    if back.to_bits() != x.to_bits() {
        return Err(format!("decode(encode({:e})) = {:e} (bits {:#018x} != {:#018x})", x, back, back.to_bits(), x.to_bits()));
    }
    Ok(())
}

/// All decode-side obligations for one normalised eight-byte real.
fn check_decode(b: u64, ctx: &mut Ctx) -> Result<(), String> {
    debug_assert!(R::is_normalised(b));
    let want = R::decode(b);
    let got = GdsFloat64::decode(b);
    let sb = R::sig_bits(b);
    if sb >= 50 {
        ctx.nontrivial(b);
    }
    if sb > 53 {
        ctx.label("decode: more than 53 significant bits (rounding)");
    }
    if got.to_bits() != want.to_bits() && !(b == 0 && got == 0.0) {
        return Err(format!("decode({:#018x}) = {:e} (bits {:#018x}); correctly rounded value is {:e} (bits {:#018x})", b, got, got.to_bits(), want, want.to_bits()));
    }
    if sb <= 53 {
        let re = GdsFloat64::encode(got);
        if re != b {
            return Err(format!("encode(decode({:#018x})) = {:#018x}: a real with {} significant bits must re-encode to the same bytes", b, re, sb));
        }
    }
    Ok(())
}

// ---- sub-check: neighbourhoods of every power of two ------------------------------------------
const NEIGH_K: i64 = 16;
fn neigh_total() -> u64 {
    ((EMAX - EMIN + 1) * (2 * NEIGH_K + 1) * 2) as u64
}
fn neigh_value(i: u64) -> Option<f64> {
    let sign = i & 1;
    let i = (i >> 1) as i64;
    let k = i % (2 * NEIGH_K + 1) - NEIGH_K;
    let e = EMIN + i / (2 * NEIGH_K + 1);
    let base = pow2(e).to_bits() as i64;
    let x = f64::from_bits((base + k) as u64);
    if !R::in_range(x) {
        return None;
    }
    Some(if sign == 1 { -x } else { x })
}
fn neigh_case(src: &mut Src, ctx: &mut Ctx) -> Result<(), String> {
    let i = src.u64();
    match neigh_value(i) {
        None => {
            ctx.excluded("below 16^-65 (outside the GDSII real range)");
            Ok(())
        }
        Some(x) => {
            ctx.sample("neighbourhood of a power of two", || format!("x = {:e} (bits {:#018x})", x, x.to_bits()));
            check_encode(x, ctx)
        }
    }
}

// ---- sub-check: one- and two-bit mantissas at every exponent -----------------------------------
fn sparse_patterns() -> Vec<u64> {
    let mut v = vec![0u64];
    for i in 0..52 {
        v.push(1 << i);
    }
    for i in 0..52 {
        for j in 0..i {
            v.push((1 << i) | (1 << j));
        }
    }
    v
}
fn sparse_total() -> u64 {
    sparse_patterns().len() as u64 * (EMAX - EMIN + 1) as u64 * 2
}
fn sparse_case(pats: &[u64]) -> impl Fn(&mut Src, &mut Ctx) -> Result<(), String> + '_ {
    move |src, ctx| {
        let i = src.u64();
        let sign = i & 1;
        let i = i >> 1;
        let pat = pats[(i % pats.len() as u64) as usize];
        let e = EMIN + (i / pats.len() as u64) as i64;
        let x = f64::from_bits((sign << 63) | (((e + 1023) as u64) << 52) | pat);
        if i % 100_003 == 0 {
            ctx.sample("sparse mantissa", || format!("x = {:e} (bits {:#018x})", x, x.to_bits()));
        }
        check_encode(x, ctx)
    }
}

// ---- sub-check: random doubles in range ------------------------------------------------------
fn random_double(src: &mut Src) -> f64 {
    let sign = src.below(2);
    let e = src.i64_in(EMIN, EMAX);
    let kind = src.weighted(&[6, 2, 1, 1]);
    let frac = match kind {
        0 => src.u64() & ((1u64 << 52) - 1),
        1 => (1u64 << 52) - 1 - src.below(64),          // just below the next power of two
        2 => src.below(64),                               // just above a power of two
        _ => (src.u64() & ((1u64 << 52) - 1)) & !((1u64 << src.below(52)) - 1), // trailing zeros
    };
    f64::from_bits((sign << 63) | (((e + 1023) as u64) << 52) | frac)
}
/// Degrees, magnifications and unit sizes as layouts carry them
fn plausible_field(src: &mut Src) -> f64 {
    let base: f64 = match src.weighted(&[4, 2, 3, 2]) {
        0 => 90.0 * src.signed(8) as f64,
        1 => 45.0 * src.signed(16) as f64,
        2 => src.signed(1000) as f64,
        _ => *src.pick(&[1e-3, 1e-9, 1e-6, 0.5, 0.25, 2.0, 1000.0, 0.001, 1e-10, 2e-9]),
    };
    let x = match src.weighted(&[3, 2, 3, 1, 1]) {
        0 => base,
        1 => {
            let k = src.i64_in(1, 3);
            if base == 0.0 {
                base
            } else if src.bool() {
                f64::from_bits(base.to_bits() + k as u64)
            } else {
                f64::from_bits(base.to_bits() - k as u64)
            }
        }
        2 => base + (src.u64() >> 11) as f64 / (1u64 << 53) as f64 * if src.bool() { 1.0 } else { -1.0 },
        3 => base + *src.pick(&[0.5, 0.25, -0.5, 0.125, 0.75]),
        _ => base + *src.pick(&[1e-6, -1e-6, 1e-9, 1e-3]),
    };
    if x == 0.0 || R::in_range(x) {
        x
    } else {
        base
    }
}
fn random_case(src: &mut Src, ctx: &mut Ctx) -> Result<(), String> {
    ctx.extra_evals(31);
    for k in 0..32 {
        let x = random_double(src);
        if k == 0 {
            ctx.sample("random in-range double", || format!("x = {:e} (bits {:#018x})", x, x.to_bits()));
        }
        check_encode(x, ctx)?;
    }
    Ok(())
}

// ---- sub-check: decode, sparse normalised mantissas at every exponent --------------------------
fn dsparse_patterns() -> Vec<u64> {
    let mut v = vec![];
    for t in 52..56u32 {
        v.push(1u64 << t);
        for i in 0..t {
            v.push((1 << t) | (1 << i));
            for j in 0..i {
                v.push((1 << t) | (1 << i) | (1 << j));
            }
        }
    }
    v
}
fn dsparse_case(pats: &[u64]) -> impl Fn(&mut Src, &mut Ctx) -> Result<(), String> + '_ {
    move |src, ctx| {
        let i = src.u64();
        let sign = i & 1;
        let i = i >> 1;
        let m = pats[(i % pats.len() as u64) as usize];
        let e = i / pats.len() as u64;
        let b = (sign << 63) | (e << 56) | m;
        if i % 100_003 == 0 {
            ctx.sample("sparse normalised real", || format!("bytes {:#018x}", b));
        }
        check_decode(b, ctx)
    }
}

// ---- sub-check: random normalised reals incl. 54..56 significant bits and ties -----------------
fn random_real(src: &mut Src) -> u64 {
    let sign = src.below(2);
    let e = src.below(128);
    let top = 52 + src.below(4); // top bit position
    let kind = src.weighted(&[4, 2, 2, 2]);
    let below_mask = (1u64 << top) - 1;
    let low = match kind {
        0 => src.u64() & below_mask,
        // ties and near-ties: the bits below the 53-bit cut are exactly half, half±1, or zero
        1 | 2 => {
            let sh = top.saturating_sub(52); // number of bits that will be rounded away
            let hi = (src.u64() & below_mask) >> sh << sh;
            if sh == 0 {
                hi
            } else {
                let half = 1u64 << (sh - 1);
                let r = match src.below(4) {
                    0 => half,
                    1 => half.saturating_sub(1),
                    2 => (half + 1) & ((1 << sh) - 1),
                    _ => 0,
                };
                hi | r
            }
        }
        // all ones (rounds up into the next binade / next power of sixteen)
        _ => below_mask & !((1u64 << src.below(4)) - 1),
    };
    (sign << 63) | (e << 56) | (1u64 << top) | low
}
fn random_real_case(src: &mut Src, ctx: &mut Ctx) -> Result<(), String> {
    ctx.extra_evals(31);
    for k in 0..32 {
        let b = random_real(src);
        if k == 0 {
            ctx.sample("random normalised real", || format!("bytes {:#018x} ({} significant bits)", b, R::sig_bits(b)));
        }
        check_decode(b, ctx)?;
    }
    Ok(())
}

// ---- sub-check: reals travel through UNITS / MAG / ANGLE records --------------------------------
fn record_case(src: &mut Src, ctx: &mut Ctx) -> Result<(), String> {
    use gds21::*;
    // half the fields hold any in-range double, half a value of the kind these records hold in practice
    // (degrees, magnifications, unit sizes): whole and fractional, right angles and their neighbours
    let v: Vec<f64> = (0..4).map(|_| if src.bool() { random_double(src) } else { plausible_field(src) }).collect();
    // the identity values, alone and together (a writer must not take them for "nothing to write")
    let mut v = v;
    if src.prob(1, 5) {
        v[2] = 1.0;
    }
    if src.prob(1, 5) {
        v[3] = 0.0;
    }
    if src.prob(1, 12) {
        v[0] = 0.0;
    }
    if v[2] == 1.0 && v[3] == 0.0 {
        ctx.label("MAG 1.0 together with ANGLE 0.0");
    }
    if v[3].fract() != 0.0 && [90.0, 180.0, 270.0].contains(&v[3].trunc().abs()) {
        ctx.label("ANGLE: fractional value next to a right angle");
    }
    ctx.sample("reals inside UNITS/MAG/ANGLE records", || format!("units=({:e},{:e}) mag={:e} angle={:e}", v[0], v[1], v[2], v[3]));
    let mut lib = GdsLibrary::new("L");
    lib.units = GdsUnits(v[0], v[1]);
    let mut s = GdsStruct::new("S");
    // MAG and ANGLE belong to the transform of a structure reference, an array reference or a text
    // (either may be absent: the other must then arrive under its own record type)
    let (has_mag, has_angle) = match src.below(6) {
        0 => (true, false),
        1 => (false, true),
        _ => (true, true),
    };
    // (the two "absolute" flag bits are flags: they say nothing about the sign of the numbers beside them)
    let strans = Some(GdsStrans { mag: if has_mag { Some(v[2]) } else { None }, angle: if has_angle { Some(v[3]) } else { None }, abs_mag: src.prob(1, 4), abs_angle: src.prob(1, 4), reflected: src.prob(1, 4) });
    let kind = src.below(3);
    ctx.label(["reals on a structure reference", "reals on an array reference", "reals on a text"][kind as usize]);
    s.elems.push(match kind {
        0 => GdsElement::GdsStructRef(GdsStructRef { name: "T".into(), xy: GdsPoint::new(1, 2), strans, ..Default::default() }),
        1 => GdsElement::GdsArrayRef(GdsArrayRef { name: "T".into(), xy: [GdsPoint::new(0, 0), GdsPoint::new(20, 0), GdsPoint::new(0, 30)], cols: 2, rows: 3, strans, ..Default::default() }),
        _ => GdsElement::GdsTextElem(GdsTextElem { string: "t".into(), layer: 1, texttype: 0, xy: GdsPoint::new(1, 2), strans, ..Default::default() }),
    });
    lib.structs.push(s);
    let mut bytes = Vec::new();
    lib.write(&mut bytes).map_err(|e| format!("write failed: {}", e))?;
    // HEADER(6) BGNLIB(28) LIBNAME(4+2) UNITS(4 + 16)
    let off = 6 + 28 + 6 + 4;
    for k in 0..2 {
        let got = u64::from_be_bytes(bytes[off + 8 * k..off + 8 * k + 8].try_into().unwrap());
        if got != R::encode(v[k]) {
            return Err(format!("UNITS[{}] of {:e} written as {:#018x}, exact encoding is {:#018x}", k, v[k], got, R::encode(v[k])));
        }
    }
    let lib2 = GdsLibrary::from_bytes(&bytes).map_err(|e| format!("read failed: {}", e))?;
    let st = match &lib2.structs[0].elems[0] {
        GdsElement::GdsStructRef(r) => r.strans.clone(),
        GdsElement::GdsArrayRef(r) => r.strans.clone(),
        GdsElement::GdsTextElem(r) => r.strans.clone(),
        _ => return Err("element kind changed".into()),
    }
    .ok_or("the element's transform (STRANS) is absent after reading")?;
    if st.mag.is_some() != has_mag || st.angle.is_some() != has_angle {
        return Err(format!("transform written with MAG {:?} ANGLE {:?} read back with MAG {:?} ANGLE {:?}", if has_mag { Some(v[2]) } else { None }, if has_angle { Some(v[3]) } else { None }, st.mag, st.angle));
    }
    let got = [lib2.units.0, lib2.units.1, st.mag.unwrap_or(v[2]), st.angle.unwrap_or(v[3])];
    for k in 0..4 {
        ctx.nontrivial(v[k].to_bits());
        if got[k].to_bits() != v[k].to_bits() {
            return Err(format!("real field {} written as {:e} read back as {:e}", k, v[k], got[k]));
        }
    }
    Ok(())
}

// ---- sub-check: fixed boundary cases (also the regression inputs of repaired defects) ----------
/// Many reals in one stream, drawn from a small pool so that values recur after others have been seen:
/// what a record decodes to may not depend on what was decoded before it.
fn many_reals_case(src: &mut Src, ctx: &mut Ctx) -> Result<(), String> {
    use gds21::*;
    let npool = src.usize_in(2, 14);
    let pool: Vec<f64> = (0..npool).map(|_| if src.bool() { random_double(src) } else { plausible_field(src) }).collect();
    let n = src.usize_in(10, 40);
    let mut lib = GdsLibrary::new("L");
    lib.units = GdsUnits(pool[src.index(npool)], pool[src.index(npool)]);
    let mut s = GdsStruct::new("S");
    let mut want: Vec<(Option<f64>, Option<f64>)> = vec![];
    for _ in 0..n {
        let mag = if src.prob(3, 4) { Some(pool[src.index(npool)]) } else { None };
        let angle = if src.prob(3, 4) { Some(pool[src.index(npool)]) } else { None };
        want.push((mag, angle));
        s.elems.push(GdsElement::GdsStructRef(GdsStructRef { name: "T".into(), xy: GdsPoint::new(0, 0), strans: Some(GdsStrans { mag, angle, abs_mag: src.prob(1, 3), abs_angle: src.prob(1, 3), reflected: src.prob(1, 3) }), ..Default::default() }));
    }
    lib.structs.push(s);
    ctx.nontrivial(crate::engine::hash_of(&format!("{:?}", want)));
    ctx.label("stream of 10-40 transforms with recurring reals");
    let mut bytes = Vec::new();
    lib.write(&mut bytes).map_err(|e| format!("write failed: {}", e))?;
    let lib2 = GdsLibrary::from_bytes(&bytes).map_err(|e| format!("read failed: {}", e))?;
    if lib2.units.0.to_bits() != lib.units.0.to_bits() || lib2.units.1.to_bits() != lib.units.1.to_bits() {
        return Err(format!("UNITS {:e} {:e} read back as {:e} {:e}", lib.units.0, lib.units.1, lib2.units.0, lib2.units.1));
    }
    for (k, e) in lib2.structs[0].elems.iter().enumerate() {
        let st = match e {
            GdsElement::GdsStructRef(r) => r.strans.clone().ok_or("transform absent after reading")?,
            _ => return Err("element kind changed".into()),
        };
        let b = |x: Option<f64>| x.map(|v| v.to_bits());
        if b(st.mag) != b(want[k].0) || b(st.angle) != b(want[k].1) {
            return Err(format!("reference #{} of {}: MAG {:?} ANGLE {:?} read back as MAG {:?} ANGLE {:?} (pool of {} values: {:?})", k, n, want[k].0, want[k].1, st.mag, st.angle, npool, pool));
        }
    }
    Ok(())
}
fn literal_values() -> Vec<f64> {
    let mut v = vec![0.0, 1.0, -1.0, 1e-3, 1e-9, 1e-6, 0.1, 90.0, 180.0, 270.0, 1.0 / 3.0, 0.25, 16.0, 1.0 / 16.0];
    // predecessors / successors of powers of sixteen
    for k in [-65i64, -64, -63, -10, -1, 0, 1, 2, 10, 62] {
        let p = pow2(4 * k);
        v.push(p);
        v.push(f64::from_bits(p.to_bits() + 1));
        if R::in_range(f64::from_bits(p.to_bits() - 1)) {
            v.push(f64::from_bits(p.to_bits() - 1));
        }
    }
    v.push(f64::from_bits(pow2(252).to_bits() - 1)); // largest value in range
    v
}
fn literal_case(src: &mut Src, ctx: &mut Ctx) -> Result<(), String> {
    let vals = literal_values();
    let i = src.u64() as usize;
    let x = vals[i % vals.len()];
    ctx.sample("boundary literal", || format!("x = {:e}", x));
    check_encode(x, ctx)?;
    // zero and negative zero
    if GdsFloat64::decode(GdsFloat64::encode(-0.0)) != 0.0 {
        return Err("decode(encode(-0.0)) != 0".into());
    }
    Ok(())
}

fn run(run: &mut Run) {
    run.rule("in-range doubles: every value within 16 ulp of each power of two in range (exhaustive), every one-/two-bit mantissa at every exponent (exhaustive), random 52-bit mantissas; normalised 8-byte reals: every 1-3-bit mantissa at every exponent (exhaustive), random reals incl. 54-56 significant bits and rounding ties. Non-trivial = within 16 ulp of a power of sixteen or >= 50 significant bits; distinct by bit pattern.");
    run.assume("R-real (harness/src/refmodel/gdsreal.rs) is the exact integer model of the format");
    run.assume("-0.0 is only required to come back as zero; values outside the normalised range 16^-65 <= |x| < 16^63 are not generated (the quantifier names 16^-64; the band [16^-65, 16^-64) is exponent byte 0 with a normalised mantissa and lies inside the format's range the statement speaks of)");
    let lits: Vec<Vec<u32>> = (0..literal_values().len() as u32).map(|i| vec![0, i]).collect();
    run.literals("literals", &lits, &literal_case);
    run.enumerate("pow2-neighbourhoods", neigh_total(), &neigh_case);
    let pats = sparse_patterns();
    let total = sparse_total();
    match run.tier {
        crate::engine::Tier::Thorough => run.enumerate("sparse-mantissas", total, &sparse_case(&pats)),
        crate::engine::Tier::Quick => run.enumerate("sparse-mantissas", total, &sparse_case(&pats)),
    }
    let dp = dsparse_patterns();
    run.enumerate("decode-sparse", dp.len() as u64 * 128 * 2, &dsparse_case(&dp));
    let n = run.tier.pick(100_000, 1_500_000);
    run.explore("random-doubles", n, 32 * 8, &random_case);
    run.explore("random-reals", n, 32 * 9, &random_real_case);
    run.explore("records", run.tier.pick(60_000, 1_000_000), 40, &record_case);
    // the same, each case in a thread of its own (per-thread state of the code starts from scratch)
    run.explore_fresh("records", run.tier.pick(3_000, 40_000), 40, &record_case);
    run.explore("records-many-reals", run.tier.pick(20_000, 300_000), 200, &many_reals_case);
}

fn case(sub: &str) -> Option<Box<CaseFn<'static>>> {
    match sub {
        "literals" => Some(Box::new(literal_case)),
        "pow2-neighbourhoods" => Some(Box::new(neigh_case)),
        "sparse-mantissas" => Some(Box::new(|s: &mut Src, c: &mut Ctx| {
            let p = sparse_patterns();
            let f = sparse_case(&p);
            f(s, c)
        })),
        "decode-sparse" => Some(Box::new(|s: &mut Src, c: &mut Ctx| {
            let p = dsparse_patterns();
            let f = dsparse_case(&p);
            f(s, c)
        })),
        "random-doubles" => Some(Box::new(random_case)),
        "random-reals" => Some(Box::new(random_real_case)),
        "records" => Some(Box::new(record_case)),
        "records-many-reals" => Some(Box::new(many_reals_case)),
        _ => None,
    }
}

fn render(sub: &str, choices: &[u32]) -> Option<String> {
    let mut src = Src::new(choices);
    match sub {
        "pow2-neighbourhoods" => neigh_value(src.u64()).map(|x| format!("x = {:e} bits {:#018x}", x, x.to_bits())),
        "random-doubles" => {
            let v: Vec<String> = (0..32).map(|_| { let x = random_double(&mut src); format!("{:#018x}", x.to_bits()) }).collect();
            Some(format!("doubles (bits): {}", v.join(" ")))
        }
        "random-reals" => {
            let v: Vec<String> = (0..32).map(|_| format!("{:#018x}", random_real(&mut src))).collect();
            Some(format!("reals: {}", v.join(" ")))
        }
        _ => None,
    }
}
