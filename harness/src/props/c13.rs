//! C13 — point-in-shape answers agree with exact geometry.
use super::PropDef;
use crate::engine::{hash_of, CaseFn, Ctx, Run, Src, Tier};
use crate::refmodel::geom as G;
use crate::refmodel::geom::P;
use layout21raw as raw;
use raw::{Point, ShapeTrait};

pub fn def() -> PropDef {
    PropDef { id: "C13", level: "exploration", run, case, render }
}
fn pt(p: P) -> Point {
    Point::new(p.0 as isize, p.1 as isize)
}
fn poly(v: &[P]) -> raw::Polygon {
    raw::Polygon { points: v.iter().map(|p| pt(*p)).collect() }
}

// ---- rectangles: exhaustive --------------------------------------------------------------------
const RG: i64 = 6;
fn rect_total() -> u64 {
    (RG * RG * RG * RG) as u64
}
fn rect_case(src: &mut Src, ctx: &mut Ctx) -> Result<(), String> {
    let i = src.u64() as i64;
    let p0 = (i % RG, (i / RG) % RG);
    let p1 = ((i / (RG * RG)) % RG, (i / (RG * RG * RG)) % RG);
    let r = raw::Rect { p0: pt(p0), p1: pt(p1) };
    let sh = raw::Shape::Rect(r.clone());
    ctx.nontrivial(hash_of(&(p0, p1)));
    ctx.extra_evals(((RG + 2) * (RG + 2) - 1) as u64);
    if i % 199 == 0 {
        ctx.sample("rectangle", || format!("corners {:?} {:?}, queried on -1..{} squared", p0, p1, RG));
    }
    for x in -1..=RG {
        for y in -1..=RG {
            let want = G::in_rect(p0, p1, (x, y));
            let got = r.contains(&pt((x, y)));
            let got2 = sh.contains(&pt((x, y)));
            if got != want || got2 != want {
                return Err(format!("Rect {:?}-{:?} contains({},{}) = {} (through Shape: {}); the closed rectangle {} the point", p0, p1, x, y, got, got2, if want { "contains" } else { "does not contain" }));
            }
        }
    }
    Ok(())
}

// ---- polygons ---------------------------------------------------------------------------------------
/// Query `poly` at every integer point of the box [lo, hi]^2 and compare with exact geometry.
fn check_polygon_box(v: &[P], lo: P, hi: P, ctx: &mut Ctx) -> Result<(), String> {
    let pg = poly(v);
    let ys: Vec<i64> = v.iter().map(|p| p.1).collect();
    for x in lo.0..=hi.0 {
        for y in lo.1..=hi.1 {
            check_polygon_point(&pg, v, (x, y), &ys, ctx)?;
        }
    }
    Ok(())
}
fn check_polygon_point(pg: &raw::Polygon, v: &[P], q: P, ys: &[i64], ctx: &mut Ctx) -> Result<(), String> {
    let want = G::in_polygon(v, q);
    let got = pg.contains(&pt(q));
    if !want && ys.contains(&q.1) {
        ctx.label("polygon query: outside, at the height of a vertex");
    }
    if got != want {
        return Err(format!("Polygon {:?} contains{:?} = {}; exact geometry: the point is {} the closed region", v, q, got, if want { "in" } else { "outside" }));
    }
    Ok(())
}
fn small_poly_case(grid: i64, len: u32) -> impl Fn(&mut Src, &mut Ctx) -> Result<(), String> {
    move |src, ctx| {
        let mut i = src.u64() as i64;
        let n = grid * grid;
        let mut v = vec![];
        for _ in 0..len {
            let k = i % n;
            i /= n;
            v.push((k % grid, k / grid));
        }
        if !G::is_simple(&v) {
            ctx.excluded("vertex sequence is not a simple polygon with area");
            return Ok(());
        }
        ctx.nontrivial(hash_of(&v));
        ctx.extra_evals(((grid + 2) * (grid + 2) - 1) as u64);
        if v.windows(2).any(|w| w[0] == w[1]) || v.first() == v.last() {
            ctx.label("polygon with a repeated vertex");
        }
        if G::reduce(&v).map(|r| r.len() < v.len()).unwrap_or(false) {
            ctx.label("polygon with collinear or repeated vertices");
        }
        ctx.label(if G::area2(&v) > 0 { "polygon counter-clockwise" } else { "polygon clockwise" });
        if i == 0 && v[0].0 == 1 {
            ctx.sample("small-grid polygon", || format!("{:?} queried on -1..{} squared", v, grid));
        }
        check_polygon_box(&v, (-1, -1), (grid, grid), ctx)
    }
}

/// x-monotone rectilinear ("histogram") polygon: columns with [bottom, top] ranges that overlap
/// their neighbours. Produces L, U, T and staircase shapes; simple by construction.
pub fn gen_histogram(src: &mut Src, scale: i64) -> Vec<P> {
    let ncol = src.usize_in(1, 6);
    gen_histogram_n(src, scale, ncol)
}
pub fn gen_histogram_n(src: &mut Src, scale: i64, ncol: usize) -> Vec<P> {
    let mut cols: Vec<(i64, i64, i64)> = vec![]; // (width, bottom, top)
    let (mut b, mut t) = (src.i64_in(0, 4), 0);
    t = b + src.i64_in(1, 6);
    for _ in 0..ncol {
        let w = src.i64_in(1, 4);
        cols.push((w, b, t));
        // next column: any range overlapping [b, t] with positive length
        let nb = src.i64_in(b - 4, t - 1);
        let nt = src.i64_in(nb.max(b) + 1, t + 4).max(nb + 1);
        b = nb;
        t = nt;
    }
    let mut bottom: Vec<P> = vec![];
    let mut top: Vec<P> = vec![];
    let mut x = 0;
    for (w, b, t) in &cols {
        bottom.push((x, *b));
        bottom.push((x + w, *b));
        top.push((x, *t));
        top.push((x + w, *t));
        x += w;
    }
    top.reverse();
    bottom.extend(top);
    let ox = src.signed(30);
    let oy = src.signed(30);
    let mut v: Vec<P> = bottom.iter().map(|p| (p.0 * scale + ox, p.1 * scale + oy)).collect();
    // random start vertex and orientation
    let r = src.index(v.len());
    v.rotate_left(r);
    if src.bool() {
        v.reverse();
    }
    v
}
/// Chamfer some convex corners of a (scaled) rectilinear polygon by one unit: 45-degree polygon.
pub fn chamfer(src: &mut Src, v: &[P]) -> Vec<P> {
    let r = match G::reduce(v) {
        Some(r) => r,
        None => return v.to_vec(),
    };
    let n = r.len();
    let ccw = G::area2(&r) > 0;
    let mut out = vec![];
    for i in 0..n {
        let (a, b, c) = (r[(i + n - 1) % n], r[i], r[(i + 1) % n]);
        let cr = (b.0 - a.0) as i128 * (c.1 - b.1) as i128 - (b.1 - a.1) as i128 * (c.0 - b.0) as i128;
        let convex = (cr > 0) == ccw;
        let la = (b.0 - a.0).abs() + (b.1 - a.1).abs();
        let lc = (c.0 - b.0).abs() + (c.1 - b.1).abs();
        if convex && la >= 3 && lc >= 3 && src.bool() {
            let ua = ((a.0 - b.0).signum(), (a.1 - b.1).signum());
            let uc = ((c.0 - b.0).signum(), (c.1 - b.1).signum());
            out.push((b.0 + ua.0, b.1 + ua.1));
            out.push((b.0 + uc.0, b.1 + uc.1));
        } else {
            out.push(b);
        }
    }
    out
}
/// Star-shaped polygon: vertices at strictly increasing polar angle around the origin, with
/// every angular gap below 180 degrees. Simple by construction.
pub fn gen_star(src: &mut Src) -> Vec<P> {
    let k = src.usize_in(3, 9);
    let rr = src.i64_in(2, 40);
    let mut dirs: Vec<P> = vec![];
    for _ in 0..k + 3 {
        let d = (src.signed(rr), src.signed(rr));
        if d != (0, 0) {
            dirs.push(d);
        }
    }
    let half = |p: &P| if p.1 > 0 || (p.1 == 0 && p.0 > 0) { 0 } else { 1 };
    dirs.sort_by(|a, b| {
        half(a).cmp(&half(b)).then_with(|| {
            let c = a.0 as i128 * b.1 as i128 - a.1 as i128 * b.0 as i128;
            0i128.cmp(&c)
        })
    });
    // one vertex per direction
    let mut v: Vec<P> = vec![];
    for d in dirs {
        if let Some(l) = v.last() {
            let c = l.0 as i128 * d.1 as i128 - l.1 as i128 * d.0 as i128;
            let dot = l.0 as i128 * d.0 as i128 + l.1 as i128 * d.1 as i128;
            if c == 0 && dot > 0 {
                continue;
            }
        }
        v.push(d);
    }
    let n = v.len();
    let ok = n >= 3 && (0..n).all(|i| {
        let (a, b) = (v[i], v[(i + 1) % n]);
        a.0 as i128 * b.1 as i128 - a.1 as i128 * b.0 as i128 > 0
    });
    if !ok {
        return vec![(0, -3), (4, 2), (-4, 2)];
    }
    let (ox, oy) = (src.signed(50), src.signed(50));
    let mut v: Vec<P> = v.iter().map(|p| (p.0 + ox, p.1 + oy)).collect();
    if src.bool() {
        v.reverse();
    }
    v
}
fn gen_big_polygon(src: &mut Src) -> (Vec<P>, &'static str) {
    match src.below(3) {
        0 => {
            let sc = 1 + src.below(3) as i64;
            (gen_histogram(src, sc), "rectilinear")
        }
        1 => {
            let h = gen_histogram(src, 4);
            (chamfer(src, &h), "45-degree")
        }
        _ => (gen_star(src), "star-shaped"),
    }
}
/// Outlines of 60 to several hundred vertices (a pad ring, a merged well): the answer may not depend on how
/// many vertices the polygon has
fn many_vertex_case(src: &mut Src, ctx: &mut Ctx) -> Result<(), String> {
    let ncol = *src.pick(&[15usize, 16, 17, 31, 32, 33, 40, 63, 64, 65, 80, 128, 129]);
    let scale = if src.bool() { 1 } else { 4 };
    let h = gen_histogram_n(src, scale, ncol);
    let v = if src.prob(1, 3) { chamfer(src, &h) } else { h };
    check_big(v, "many vertices", ctx)
}
fn big_poly_case(src: &mut Src, ctx: &mut Ctx) -> Result<(), String> {
    let (v, family) = gen_big_polygon(src);
    check_big(v, family, ctx)
}
fn check_big(v: Vec<P>, family: &'static str, ctx: &mut Ctx) -> Result<(), String> {
    if !G::is_simple(&v) {
        ctx.excluded("generated polygon not simple (construction fallback)");
        return Ok(());
    }
    ctx.label(&format!("polygon family: {}", family));
    ctx.nontrivial(hash_of(&v));
    ctx.sample(&format!("{} polygon", family), || format!("{:?}", v));
    let (x0, x1) = (v.iter().map(|p| p.0).min().unwrap(), v.iter().map(|p| p.0).max().unwrap());
    let (y0, y1) = (v.iter().map(|p| p.1).min().unwrap(), v.iter().map(|p| p.1).max().unwrap());
    if (x1 - x0 + 5) * (y1 - y0 + 5) <= 6000 {
        // small enough: every point of the bounding box plus a margin of two
        ctx.extra_evals(((x1 - x0 + 5) * (y1 - y0 + 5)) as u64);
        check_polygon_box(&v, (x0 - 2, y0 - 2), (x1 + 2, y1 + 2), ctx)?;
    } else {
        let pg = poly(&v);
        let ys: Vec<i64> = v.iter().map(|p| p.1).collect();
        let n = v.len();
        let mut qs: Vec<P> = vec![];
        for i in 0..n {
            let (a, b) = (v[i], v[(i + 1) % n]);
            qs.push(a);
            // midpoint-ish point of the edge and its neighbours one unit either side
            let m = ((a.0 + b.0) / 2, (a.1 + b.1) / 2);
            for d in [(0, 0), (1, 0), (-1, 0), (0, 1), (0, -1), (1, 1), (-1, -1)] {
                qs.push((m.0 + d.0, m.1 + d.1));
                qs.push((a.0 + d.0, a.1 + d.1));
            }
            // every vertex height across the bounding box
            for x in (x0 - 1..=x1 + 1).step_by(((x1 - x0) / 40 + 1) as usize) {
                qs.push((x, a.1));
            }
        }
        qs.push((x0 - 1000, y0));
        qs.push((x1 + 1000, (y0 + y1) / 2));
        ctx.extra_evals(qs.len() as u64);
        for q in qs {
            check_polygon_point(&pg, &v, q, &ys, ctx)?;
        }
    }
    Ok(())
}

// ---- Manhattan paths -----------------------------------------------------------------------------

// ---- polygons with large coordinates: points next to long slanted edges -------------------------------------
/// Triangles and convex quadrilaterals with coordinates up to about 2^30 (layouts in fine units reach
/// that), queried at the lattice points nearest to their edges, where an inexact cross product
/// would flip the answer. Convex by construction (vertices sorted by angle around an interior point).
fn gcd_i128(a: i128, b: i128) -> i128 {
    if b == 0 {
        a
    } else {
        gcd_i128(b, a % b)
    }
}
/// (x, y) with a*x + b*y = gcd(a, b) (sign conventions of the Euclidean algorithm on signed values)
fn ext_gcd(a: i128, b: i128) -> (i128, i128) {
    if b == 0 {
        (if a < 0 { -1 } else { 1 }, 0)
    } else {
        let (x, y) = ext_gcd(b, a % b);
        (y, x - (a / b) * y)
    }
}
fn large_poly_case(src: &mut Src, ctx: &mut Ctx) -> Result<(), String> {
    let n = src.usize_in(3, 4);
    let big = 1i64 << src.i64_in(20, 30);
    let c = (src.signed(big), src.signed(big));
    // points on a large ellipse around c, in angular order: convex
    let mut angs: Vec<f64> = (0..n).map(|k| (k as f64 + src.below(1000) as f64 / 1200.0) * std::f64::consts::TAU / n as f64).collect();
    angs.sort_by(|a, b| a.partial_cmp(b).unwrap());
    let (rx, ry) = (src.i64_in(big / 4, big) as f64, src.i64_in(big / 4, big) as f64);
    let mut v: Vec<P> = angs.iter().map(|a| (c.0 + (rx * a.cos()) as i64, c.1 + (ry * a.sin()) as i64)).collect();
    if src.bool() {
        v.reverse();
    }
    let r = src.index(v.len());
    v.rotate_left(r);
    if !G::is_simple(&v) {
        ctx.excluded("generated polygon not simple (construction fallback)");
        return Ok(());
    }
    ctx.nontrivial(hash_of(&v));
    ctx.label(&format!("large polygon, coordinates up to 2^{}", 64 - (big as u64).leading_zeros() - 1));
    ctx.sample("large polygon", || format!("{:?}", v));
    let pg = poly(&v);
    let ys: Vec<i64> = v.iter().map(|p| p.1).collect();
    let mut qs: Vec<P> = vec![];
    for i in 0..v.len() {
        let (a, b) = (v[i], v[(i + 1) % v.len()]);
        for _ in 0..6 {
            // a lattice point near the edge: a + t (b - a), rounded, and its eight neighbours
            let t = src.below(1 << 20) as i128;
            let m = ((a.0 as i128 + (b.0 - a.0) as i128 * t / (1 << 20)) as i64, (a.1 as i128 + (b.1 - a.1) as i128 * t / (1 << 20)) as i64);
            for dx in -1..=1 {
                for dy in -1..=1 {
                    qs.push((m.0 + dx, m.1 + dy));
                }
            }
        }
        qs.push(a);
        qs.push((a.0 + 1, a.1));
        qs.push((a.0, a.1 - 1));
        // the lattice points closest to the line through the edge without being on it (cross product
        // +-gcd), and lattice points exactly on it, about one and two thirds of the way along
        let (dx, dy) = ((b.0 - a.0) as i128, (b.1 - a.1) as i128);
        let g = gcd_i128(dx.abs(), dy.abs());
        if g > 0 {
            let (rx, ry) = (dx / g, dy / g);
            // rx * v - ry * u = 1
            let (x, y) = ext_gcd(rx, ry); // rx*x + ry*y = 1
            let (u0, v0) = (-y, x);
            let len2 = (rx * rx + ry * ry) as f64;
            for t in [1.0f64 / 3.0, 2.0 / 3.0] {
                let s0 = (u0 as f64 * rx as f64 + v0 as f64 * ry as f64) / len2; // position of (u0, v0) along the reduced direction
                let k = (t * g as f64 - s0).round() as i128;
                let (u, v) = (u0 + k * rx, v0 + k * ry);
                for (pu, pv) in [(u, v), (-u + 2 * ((t * g as f64).round() as i128) * rx, -v + 2 * ((t * g as f64).round() as i128) * ry), (((t * g as f64).round() as i128) * rx, ((t * g as f64).round() as i128) * ry)] {
                    let q = (a.0 as i128 + pu, a.1 as i128 + pv);
                    if q.0.abs() < (1i128 << 40) && q.1.abs() < (1i128 << 40) {
                        qs.push((q.0 as i64, q.1 as i64));
                    }
                }
            }
        }
    }
    ctx.extra_evals(qs.len() as u64);
    for q in qs {
        check_polygon_point(&pg, &v, q, &ys, ctx)?;
    }
    Ok(())
}
pub fn gen_path(src: &mut Src) -> (Vec<P>, i64) {
    let n = src.usize_in(2, 8);
    let mut p = (src.signed(20), src.signed(20));
    let mut v = vec![p];
    let mut horiz = src.bool();
    for _ in 1..n {
        let mut d = src.signed(12);
        // a repeated point (zero-length segment) now and then, in paths of three or more points, where
        // one of the two copies is an interior joint; otherwise never zero
        if d == 0 && !(n >= 3 && src.prob(1, 2)) {
            d = 1;
        }
        p = if horiz { (p.0 + d, p.1) } else { (p.0, p.1 + d) };
        v.push(p);
        // mostly alternate; sometimes continue in the same axis (collinear joint or U-turn)
        if !src.prob(1, 6) {
            horiz = !horiz;
        }
    }
    let w = src.i64_in(0, 9);
    (v, w)
}
fn path_case(src: &mut Src, ctx: &mut Ctx) -> Result<(), String> {
    // one case in eight begins with a query the library documents as unsupported (a path with a diagonal
    // segment after some Manhattan ones; it may answer, refuse or panic): what it does there is not judged,
    // but the queries that follow, on other paths, are
    if src.prob(1, 8) {
        let (mut v0, w0) = gen_path(src);
        let last = *v0.last().unwrap();
        v0.push((last.0 + 7, last.1 + 5));
        let doomed = raw::Path { points: v0.iter().map(|p| pt(*p)).collect(), width: w0 as usize };
        let q = pt((v0[0].0, v0[0].1));
        let _ = crate::engine::guard(|| doomed.contains(&q));
        ctx.label("path queries after a query on an unsupported (diagonal) path");
    }
    let (v, w) = gen_path(src);
    let path = raw::Path { points: v.iter().map(|p| pt(*p)).collect(), width: w as usize };
    ctx.nontrivial(hash_of(&(&v, w)));
    ctx.label(if w % 2 == 0 { "path: even width" } else { "path: odd width" });
    ctx.sample("Manhattan path", || format!("width {} points {:?}", w, v));
    let m = w / 2 + 3;
    let (x0, x1) = (v.iter().map(|p| p.0).min().unwrap() - m, v.iter().map(|p| p.0).max().unwrap() + m);
    let (y0, y1) = (v.iter().map(|p| p.1).min().unwrap() - m, v.iter().map(|p| p.1).max().unwrap() + m);
    ctx.extra_evals(((x1 - x0 + 1) * (y1 - y0 + 1)) as u64);
    let (mut ni, mut no, mut nu) = (0, 0, 0);
    for x in x0..=x1 {
        for y in y0..=y1 {
            let z = G::path_zone(&v, w, (x, y));
            let got = path.contains(&pt((x, y)));
            // the same question through the Shape enum (the form the importers use)
            let got_enum = raw::Shape::Path(path.clone()).contains(&pt((x, y)));
            if got_enum != got {
                return Err(format!("Path width {} points {:?}: contains({},{}) = {} asked of the path, {} asked of Shape::Path of it", w, v, x, y, got, got_enum));
            }
            match z {
                G::Zone::MustBeInside => {
                    ni += 1;
                    if !got {
                        return Err(format!("Path width {} points {:?}: contains({},{}) = false, but the point is within half the width of a segment (or of an interior joint)", w, v, x, y));
                    }
                }
                G::Zone::MustBeOutside => {
                    no += 1;
                    if got {
                        return Err(format!("Path width {} points {:?}: contains({},{}) = true, but the point is farther than half the width from every segment", w, v, x, y));
                    }
                }
                G::Zone::Unasserted => nu += 1,
            }
        }
    }
    ctx.label_n("path query: must be inside", ni);
    ctx.label_n("path query: must be outside", no);
    ctx.label_n("path query: unasserted zone (end caps / corner squares)", nu);
    Ok(())
}

// ---- literals ----------------------------------------------------------------------------------------
fn literal_case(src: &mut Src, ctx: &mut Ctx) -> Result<(), String> {
    let i = src.u64();
    let chevron = vec![(0, 0), (4, 0), (4, 4), (0, 4), (2, 2)];
    let lits: Vec<Vec<P>> = vec![
        chevron,
        vec![(0, 0), (10, 0), (10, 10), (8, 10), (8, 2), (2, 2), (2, 10), (0, 10)], // U
        vec![(0, 0), (7, 3), (0, 6)],                                                // slanted edges (division)
        vec![(0, 0), (3, 0), (3, 3), (0, 3), (0, 0)],                              // closing point repeated
        vec![(0, 0), (2, 0), (4, 0), (4, 4), (0, 4)],                              // collinear vertex
    ];
    let v = &lits[i as usize % lits.len()];
    ctx.nontrivial(hash_of(v));
    check_polygon_box(v, (-2, -2), (12, 12), ctx)
}

fn run(run: &mut Run) {
    run.rule("Rectangles: all corner pairs on a 6x6 grid x all points of the surrounding 8x8 grid (exhaustive). Polygons: all vertex sequences of length 3-4 on a 5x5 grid (quick) and 3-5 (thorough) that form a simple polygon with area, incl. collinear/repeated vertices, both orientations, every start vertex, queried on the surrounding 7x7 grid (exhaustive); random histogram (rectilinear L/U/T), 45-degree and star-shaped polygons queried over their bounding box + margin (or on/next to every edge, at every vertex height, far away, when large). Manhattan paths of 2-8 points, widths 0-9, queried over bounding box + margin and judged by zone. Non-trivial = every admitted shape; distinct by hash of the vertex list.");
    run.assume("paths: only the zones 'projection on a segment within half width', 'within half width (Euclidean) of an interior joint' (must be inside) and 'Chebyshev-farther than half width from every segment' (must be outside) are asserted; end caps and corner squares outside the joint disc are not");
    run.assume("self-intersecting or zero-area vertex sequences are outside the quantifier and skipped (counted as excluded)");
    run.min_nontrivial = 1000;
    run.literals("literals", &(0..5).map(|i| vec![0, i]).collect::<Vec<_>>(), &literal_case);
    run.enumerate("rectangles", rect_total(), &rect_case);
    run.enumerate("polygons-5x5-len3", 25u64.pow(3), &small_poly_case(5, 3));
    run.enumerate("polygons-5x5-len4", 25u64.pow(4), &small_poly_case(5, 4));
    if run.tier == Tier::Thorough {
        run.enumerate("polygons-5x5-len5", 25u64.pow(5), &small_poly_case(5, 5));
    } else {
        run.enumerate("polygons-4x4-len5", 16u64.pow(5), &small_poly_case(4, 5));
    }
    run.explore("polygons-random", run.tier.pick(100_000, 1_000_000), 200, &big_poly_case);
    // the same, each case in a thread of its own (per-thread state of the code starts from scratch)
    run.explore_fresh("polygons-random", run.tier.pick(3_000, 40_000), 200, &big_poly_case);
    run.explore("polygons-many-vertices", run.tier.pick(1_500, 20_000), 700, &many_vertex_case);
    run.explore("polygons-large-coordinates", run.tier.pick(60_000, 600_000), 60, &large_poly_case);
    run.explore("paths", run.tier.pick(100_000, 800_000), 60, &path_case);
    // the same, each case in a thread of its own (per-thread state of the code starts from scratch)
    run.explore_fresh("paths", run.tier.pick(3_000, 40_000), 60, &path_case);
}
fn case(sub: &str) -> Option<Box<CaseFn<'static>>> {
    match sub {
        "literals" => Some(Box::new(literal_case)),
        "rectangles" => Some(Box::new(rect_case)),
        "polygons-5x5-len3" => Some(Box::new(small_poly_case(5, 3))),
        "polygons-5x5-len4" => Some(Box::new(small_poly_case(5, 4))),
        "polygons-5x5-len5" => Some(Box::new(small_poly_case(5, 5))),
        "polygons-4x4-len5" => Some(Box::new(small_poly_case(4, 5))),
        "polygons-random" => Some(Box::new(big_poly_case)),
        "polygons-many-vertices" => Some(Box::new(many_vertex_case)),
        "paths" => Some(Box::new(path_case)),
        "polygons-large-coordinates" => Some(Box::new(large_poly_case)),
        _ => None,
    }
}
fn render(sub: &str, choices: &[u32]) -> Option<String> {
    let mut src = Src::new(choices);
    match sub {
        "polygons-random" => Some(format!("{:?}", gen_big_polygon(&mut src))),
        "paths" => Some(format!("{:?}", gen_path(&mut src))),
        _ => None,
    }
}
