pub mod gds;
pub mod rawlib;
pub mod tetris;
