pub mod gds;
pub mod lef;
pub mod rawlib;
pub mod tetris;
