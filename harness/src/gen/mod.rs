pub mod gds;
pub mod tetris;
