pub mod gds;
