//! G-gds: harness-side model of a GDSII library, its generator, and the mapping to `gds21` types.
//! Reals are held as `f64` bit patterns so the model is `Eq + Hash`.

use crate::engine::Src;
use gds21 as g;

#[derive(Clone, Debug, PartialEq, Eq, Hash, Default)]
pub struct MStrans {
    pub reflected: bool,
    pub abs_mag: bool,
    pub abs_angle: bool,
    pub mag: Option<u64>,
    pub angle: Option<u64>,
}
#[derive(Clone, Debug, PartialEq, Eq, Hash, Default)]
pub struct MCommon {
    pub elflags: Option<(u8, u8)>,
    pub plex: Option<i32>,
    pub props: Vec<(i16, String)>,
}
#[derive(Clone, Debug, PartialEq, Eq, Hash)]
pub enum MElem {
    Boundary { layer: i16, datatype: i16, xy: Vec<(i32, i32)>, c: MCommon },
    Path { layer: i16, datatype: i16, xy: Vec<(i32, i32)>, path_type: Option<i16>, width: Option<i32>, begin_extn: Option<i32>, end_extn: Option<i32>, c: MCommon },
    Sref { name: String, xy: (i32, i32), strans: Option<MStrans>, c: MCommon },
    Aref { name: String, xy: [(i32, i32); 3], cols: i16, rows: i16, strans: Option<MStrans>, c: MCommon },
    Text { string: String, layer: i16, texttype: i16, xy: (i32, i32), presentation: Option<(u8, u8)>, path_type: Option<i16>, width: Option<i32>, strans: Option<MStrans>, c: MCommon },
    Node { layer: i16, nodetype: i16, xy: Vec<(i32, i32)>, c: MCommon },
    Box { layer: i16, boxtype: i16, xy: [(i32, i32); 5], c: MCommon },
}
impl MElem {
    pub fn kind(&self) -> &'static str {
        match self {
            MElem::Boundary { .. } => "boundary",
            MElem::Path { .. } => "path",
            MElem::Sref { .. } => "sref",
            MElem::Aref { .. } => "aref",
            MElem::Text { .. } => "text",
            MElem::Node { .. } => "node",
            MElem::Box { .. } => "box",
        }
    }
    pub fn common(&self) -> &MCommon {
        match self {
            MElem::Boundary { c, .. } | MElem::Path { c, .. } | MElem::Sref { c, .. } | MElem::Aref { c, .. } | MElem::Text { c, .. } | MElem::Node { c, .. } | MElem::Box { c, .. } => c,
        }
    }
    /// Number of optional fields present (properties count once each)
    pub fn optional_count(&self) -> usize {
        let c = self.common();
        let mut n = c.elflags.is_some() as usize + c.plex.is_some() as usize + c.props.len();
        match self {
            MElem::Path { path_type, width, begin_extn, end_extn, .. } => {
                n += path_type.is_some() as usize + width.is_some() as usize + begin_extn.is_some() as usize + end_extn.is_some() as usize
            }
            MElem::Sref { strans, .. } | MElem::Aref { strans, .. } => n += strans.is_some() as usize,
            MElem::Text { presentation, path_type, width, strans, .. } => {
                n += presentation.is_some() as usize + path_type.is_some() as usize + width.is_some() as usize + strans.is_some() as usize
            }
            _ => {}
        }
        n
    }
    pub fn strings(&self) -> Vec<&str> {
        let mut v: Vec<&str> = self.common().props.iter().map(|p| p.1.as_str()).collect();
        match self {
            MElem::Sref { name, .. } | MElem::Aref { name, .. } => v.push(name),
            MElem::Text { string, .. } => v.push(string),
            _ => {}
        }
        v
    }
}
#[derive(Clone, Debug, PartialEq, Eq, Hash)]
pub struct MStruct {
    pub name: String,
    pub dates: [i16; 12],
    pub elems: Vec<MElem>,
}
#[derive(Clone, Debug, PartialEq, Eq, Hash)]
pub struct MLib {
    pub name: String,
    pub version: i16,
    pub dates: [i16; 12],
    pub units: (u64, u64),
    pub structs: Vec<MStruct>,
}
impl MLib {
    pub fn strings(&self) -> Vec<&str> {
        let mut v = vec![self.name.as_str()];
        for s in &self.structs {
            v.push(&s.name);
            for e in &s.elems {
                v.extend(e.strings());
            }
        }
        v
    }
    pub fn kinds(&self) -> Vec<&'static str> {
        self.structs.iter().flat_map(|s| s.elems.iter().map(|e| e.kind())).collect()
    }
    /// The non-triviality rule shared by C01/C02/C03
    pub fn nontrivial(&self) -> bool {
        self.structs.iter().any(|s| {
            s.elems.iter().any(|e| e.optional_count() > 0 || e.strings().iter().any(|t| t.len() % 2 == 1 || t.is_empty()))
        })
    }
}

// ------------------------------------------------------------------------------------------
// Conversion to the library's types
// ------------------------------------------------------------------------------------------
fn pt(p: &(i32, i32)) -> g::GdsPoint {
    g::GdsPoint::new(p.0, p.1)
}
fn pts(v: &[(i32, i32)]) -> Vec<g::GdsPoint> {
    v.iter().map(pt).collect()
}
fn dt(d: &[i16]) -> g::GdsDateTime {
    g::GdsDateTime { year: d[0], month: d[1], day: d[2], hour: d[3], minute: d[4], second: d[5] }
}
fn dts(d: &[i16; 12]) -> g::GdsDateTimes {
    g::GdsDateTimes { modified: dt(&d[0..6]), accessed: dt(&d[6..12]) }
}
fn strans(s: &Option<MStrans>) -> Option<g::GdsStrans> {
    s.as_ref().map(|s| g::GdsStrans {
        reflected: s.reflected,
        abs_mag: s.abs_mag,
        abs_angle: s.abs_angle,
        mag: s.mag.map(f64::from_bits),
        angle: s.angle.map(f64::from_bits),
    })
}
fn props(c: &MCommon) -> Vec<g::GdsProperty> {
    c.props.iter().map(|(a, v)| g::GdsProperty { attr: *a, value: v.clone() }).collect()
}
fn elflags(c: &MCommon) -> Option<g::GdsElemFlags> {
    c.elflags.map(|(a, b)| g::GdsElemFlags(a, b))
}
fn plex(c: &MCommon) -> Option<g::GdsPlex> {
    c.plex.map(g::GdsPlex)
}
pub fn elem_to_gds(e: &MElem) -> g::GdsElement {
    match e {
        MElem::Boundary { layer, datatype, xy, c } => g::GdsElement::GdsBoundary(g::GdsBoundary {
            layer: *layer,
            datatype: *datatype,
            xy: pts(xy),
            elflags: elflags(c),
            plex: plex(c),
            properties: props(c),
        }),
        MElem::Path { layer, datatype, xy, path_type, width, begin_extn, end_extn, c } => g::GdsElement::GdsPath(g::GdsPath {
            layer: *layer,
            datatype: *datatype,
            xy: pts(xy),
            width: *width,
            path_type: *path_type,
            begin_extn: *begin_extn,
            end_extn: *end_extn,
            elflags: elflags(c),
            plex: plex(c),
            properties: props(c),
        }),
        MElem::Sref { name, xy, strans: s, c } => g::GdsElement::GdsStructRef(g::GdsStructRef {
            name: name.clone(),
            xy: pt(xy),
            strans: strans(s),
            elflags: elflags(c),
            plex: plex(c),
            properties: props(c),
        }),
        MElem::Aref { name, xy, cols, rows, strans: s, c } => g::GdsElement::GdsArrayRef(g::GdsArrayRef {
            name: name.clone(),
            xy: [pt(&xy[0]), pt(&xy[1]), pt(&xy[2])],
            cols: *cols,
            rows: *rows,
            strans: strans(s),
            elflags: elflags(c),
            plex: plex(c),
            properties: props(c),
        }),
        MElem::Text { string, layer, texttype, xy, presentation, path_type, width, strans: s, c } => g::GdsElement::GdsTextElem(g::GdsTextElem {
            string: string.clone(),
            layer: *layer,
            texttype: *texttype,
            xy: pt(xy),
            presentation: presentation.map(|(a, b)| g::GdsPresentation(a, b)),
            path_type: *path_type,
            width: *width,
            strans: strans(s),
            elflags: elflags(c),
            plex: plex(c),
            properties: props(c),
        }),
        MElem::Node { layer, nodetype, xy, c } => g::GdsElement::GdsNode(g::GdsNode {
            layer: *layer,
            nodetype: *nodetype,
            xy: pts(xy),
            elflags: elflags(c),
            plex: plex(c),
            properties: props(c),
        }),
        MElem::Box { layer, boxtype, xy, c } => g::GdsElement::GdsBox(g::GdsBox {
            layer: *layer,
            boxtype: *boxtype,
            xy: [pt(&xy[0]), pt(&xy[1]), pt(&xy[2]), pt(&xy[3]), pt(&xy[4])],
            elflags: elflags(c),
            plex: plex(c),
            properties: props(c),
        }),
    }
}
pub fn to_gds(m: &MLib) -> g::GdsLibrary {
    let mut lib = g::GdsLibrary::new(m.name.clone());
    lib.version = m.version;
    lib.dates = dts(&m.dates);
    lib.units = g::GdsUnits(f64::from_bits(m.units.0), f64::from_bits(m.units.1));
    lib.structs = m
        .structs
        .iter()
        .map(|s| g::GdsStruct { name: s.name.clone(), dates: dts(&s.dates), elems: s.elems.iter().map(elem_to_gds).collect() })
        .collect();
    lib
}

/// First difference between two Debug renderings, with context — used in failure messages.
pub fn first_diff(a: &str, b: &str) -> String {
    let ab = a.as_bytes();
    let bb = b.as_bytes();
    let mut i = 0;
    while i < ab.len() && i < bb.len() && ab[i] == bb[i] {
        i += 1;
    }
    let lo = i.saturating_sub(80);
    let cut = |s: &str| {
        let mut l = lo;
        while !s.is_char_boundary(l) {
            l -= 1;
        }
        let mut h = (i + 80).min(s.len());
        while !s.is_char_boundary(h) {
            h += 1;
        }
        s[l..h].to_string()
    };
    format!("first difference at char {}: expected …{}… got …{}…", i, cut(a), cut(b))
}

// ------------------------------------------------------------------------------------------
// Generator
// ------------------------------------------------------------------------------------------
#[derive(Clone, Copy)]
pub struct GdsGenOpts {
    /// allow zero-length strings
    pub empty_strings: bool,
    /// allow records beyond the 16-bit limit (expected: write error)
    pub oversize: bool,
    /// all twelve date fields distinct, cols != rows (C02: make swaps visible)
    pub distinct_fields: bool,
    pub max_structs: usize,
    pub max_elems: usize,
    /// legal records whose length straddles 32 KB (the sign bit of the length word) or reaches the
    /// 16-bit limit from below
    pub large_records: bool,
}
impl Default for GdsGenOpts {
    fn default() -> Self {
        GdsGenOpts { empty_strings: true, oversize: true, distinct_fields: true, max_structs: 5, max_elems: 8, large_records: true }
    }
}

const NONASCII: &[&str] = &["é", "ß", "Ω", "中", "😀", "ñ", "→", "ж"];

pub fn gen_string(src: &mut Src, o: &GdsGenOpts) -> String {
    let class = src.weighted(&[12, 4, 4, 6, 6, 4, if o.large_records { 1 } else { 0 }]);
    let len = match class {
        0 => src.usize_in(3, 12),
        1 => 0,
        2 => 1,
        3 => 2 * src.usize_in(1, 22),
        4 => 2 * src.usize_in(1, 21) + 1,
        5 => 2,
        // a few hundred bytes: longer than any small fixed buffer, far below the record limit
        _ => *src.pick(&[127usize, 128, 129, 255, 256, 257, 258, 300, 511, 512, 513, 1000]),
    };
    let len = if len == 0 && !o.empty_strings { 1 } else { len };
    let mut s = String::new();
    while s.len() < len {
        let room = len - s.len();
        if room >= 4 && src.prob(1, 10) {
            let c = *src.pick(NONASCII);
            if c.len() <= room {
                s.push_str(c);
                continue;
            }
        }
        // printable ASCII 0x20..=0x7e, letters first so shrinking gives 'A's
        let k = src.below(95) as u8;
        let ch = if k < 26 { b'A' + k } else if k < 52 { b'a' + (k - 26) } else if k < 62 { b'0' + (k - 52) } else {
            const REST: &[u8] = b"_$ !\"#%&'()*+,-./:;<=>?@[\\]^`{|}~";
            REST[(k - 62) as usize % REST.len()]
        };
        s.push(ch as char);
    }
    s
}
pub fn gen_coord(src: &mut Src) -> i32 {
    match src.weighted(&[6, 3, 2, 1, 1, 1]) {
        0 => src.signed(200) as i32,
        1 => src.signed(1 << 20) as i32,
        2 => src.signed(i32::MAX as i64) as i32,
        3 => i32::MIN,
        4 => i32::MAX,
        _ => 0,
    }
}
fn gen_pt(src: &mut Src) -> (i32, i32) {
    (gen_coord(src), gen_coord(src))
}
fn gen_i16(src: &mut Src) -> i16 {
    match src.weighted(&[6, 2, 1, 1, 2]) {
        0 => src.below(64) as i16,
        1 => src.signed(32767) as i16,
        2 => i16::MIN,
        3 => i16::MAX,
        // ends of the ranges the specification names (attribute 1..127, layer 0..255, four-digit years)
        _ => *src.pick(&[1i16, 63, 64, 126, 127, 128, 255, 256, 1899, 1900, 1901, 1970, 2026, 9999, -1, -127, -128]),
    }
}
fn gen_i32(src: &mut Src) -> i32 {
    gen_coord(src)
}
/// In-range real (or zero) as bits
pub fn gen_real(src: &mut Src) -> u64 {
    const FAV: &[f64] = &[0.0, 1.0, 90.0, 180.0, 270.0, 1e-3, 1e-9, 1e-6, 0.1, 2.5, -90.0, 0.5, 45.0, 1.0 / 3.0];
    match src.weighted(&[10, 6, 4, 1]) {
        3 => {
            // below the normalised range but still representable exactly: M * 2^-312 with M < 2^52
            // (exponent byte 0, mantissa with leading zero digits)
            let bits = src.below(52) as u32;
            let m = (src.u64() & ((1u64 << bits) - 1)) | (1u64 << bits);
            let x = (m as f64) * 2f64.powi(-312);
            let sign = src.below(2);
            x.to_bits() | (sign << 63)
        }
        0 => src.pick(FAV).to_bits(),
        1 => {
            let sign = src.below(2);
            let e = src.i64_in(-260, 251);
            let frac = src.u64() & ((1u64 << 52) - 1);
            (sign << 63) | (((e + 1023) as u64) << 52) | frac
        }
        _ => {
            // next to a power of sixteen
            // (16^63 itself is what the largest eight-byte real, mantissa all ones, rounds to as a double:
            // a library read from such a file holds it, and writing saturates back to that real)
            let k = if src.prob(1, 10) { 63 } else { src.i64_in(-65, 63) };
            let base = ((4 * k + 1023) as u64) << 52;
            let d = if k == -65 {
                src.i64_in(0, 3)
            } else if k == 63 {
                -src.i64_in(0, 3)
            } else {
                src.signed(3)
            };
            let sign = src.below(2) << 63;
            (base as i64 + d) as u64 | sign
        }
    }
}
fn gen_strans(src: &mut Src) -> MStrans {
    MStrans {
        reflected: src.bool(),
        abs_mag: src.prob(1, 4),
        abs_angle: src.prob(1, 4),
        mag: if src.bool() { Some(gen_real(src)) } else { None },
        angle: if src.bool() { Some(gen_real(src)) } else { None },
    }
}
fn gen_common(src: &mut Src, o: &GdsGenOpts) -> MCommon {
    let elflags = if src.prob(1, 3) { Some((src.below(256) as u8, src.below(256) as u8)) } else { None };
    let plex = if src.prob(1, 3) { Some(gen_i32(src)) } else { None };
    // (now and then a list long enough to outgrow any small inline buffer)
    let np = if o.large_records && src.prob(1, 60) { src.usize_in(9, 40) } else { src.weighted(&[6, 2, 1, 1]) };
    let mut props: Vec<(i16, String)> = (0..np).map(|_| (gen_i16(src), gen_string(src, o))).collect();
    // (a value straddling the 16-bit record limit, on whatever element this is: 65530 bytes fit, 65531 do not)
    if o.oversize && src.prob(1, 500) {
        let n = 65529 + src.usize_in(0, 3);
        props.push((gen_i16(src), "p".repeat(n)));
    }
    // the same attribute number twice, the same value twice
    if props.len() >= 2 && src.prob(1, 4) {
        if src.bool() {
            props[1].0 = props[0].0;
        } else {
            props[1].1 = props[0].1.clone();
        }
    }
    MCommon { elflags, plex, props }
}
fn gen_xy(src: &mut Src, o: &GdsGenOpts, big: &mut bool) -> Vec<(i32, i32)> {
    if o.oversize && src.prob(1, 400) {
        // straddle the 16-bit record limit: 8191 points fit, 8192 do not
        *big = true;
        let n = 8190 + src.usize_in(0, 3);
        let p = gen_pt(src);
        return (0..n).map(|i| (p.0.wrapping_add(i as i32), p.1)).collect();
    }
    if o.large_records && src.prob(1, 300) {
        // legal, large: 4095 points make a 32764-byte record, 4096 a 32772-byte one; 8191 is the most that fits
        let n = *src.pick(&[4094usize, 4095, 4096, 4097, 6000, 8189, 8190, 8191]);
        let p = gen_pt(src);
        return (0..n).map(|i| (p.0.wrapping_add(i as i32), p.1.wrapping_sub((i % 7) as i32))).collect();
    }
    if o.large_records && src.prob(1, 80) {
        // a few hundred points: several blocks of any block-wise writer, the last one partial or full
        let n = *src.pick(&[63usize, 64, 65, 127, 128, 129, 255, 256, 257, 300, 511, 512, 513, 700, 1024, 1025]);
        let p = gen_pt(src);
        return (0..n).map(|i| (p.0.wrapping_add((i * 3) as i32), p.1.wrapping_sub((i % 5) as i32))).collect();
    }
    let n = src.weighted(&[1, 1, 2, 2, 3, 3, 2, 1, 1, 1, 1, 1, 1]);
    let mut v: Vec<(i32, i32)> = (0..n).map(|_| gen_pt(src)).collect();
    // an outline that passes through its first point again part of the way (two loops sharing a corner)
    if n >= 3 && src.prob(1, 10) {
        let at = 1 + src.index(n - 1);
        v.insert(at, v[0]);
    }
    // an outline that ends on its first point (boundaries are stored closed)
    if n >= 2 && src.prob(1, 5) {
        v.push(v[0]);
    }
    // the same point twice in a row is data like any other (a doubled vertex, the closing one included)
    if !v.is_empty() && src.prob(1, 8) {
        let i = if src.prob(1, 3) { v.len() - 1 } else { src.index(v.len()) };
        v.insert(i, v[i]);
    }
    v
}
fn opt<T>(src: &mut Src, f: impl FnOnce(&mut Src) -> T) -> Option<T> {
    if src.bool() {
        Some(f(src))
    } else {
        None
    }
}
pub fn gen_elem(src: &mut Src, o: &GdsGenOpts, big: &mut bool) -> MElem {
    let kind = src.below(7);
    match kind {
        0 => MElem::Boundary { layer: gen_i16(src), datatype: gen_i16(src), xy: gen_xy(src, o, big), c: gen_common(src, o) },
        1 => MElem::Text {
            string: gen_big_string(src, o, big),
            layer: gen_i16(src),
            texttype: gen_i16(src),
            xy: gen_pt(src),
            presentation: opt(src, |s| (s.below(256) as u8, s.below(256) as u8)),
            path_type: opt(src, gen_i16),
            width: opt(src, gen_i32),
            strans: opt(src, gen_strans),
            c: gen_common(src, o),
        },
        2 => {
            let mut path_type = opt(src, gen_i16);
            let mut width = opt(src, gen_i32);
            let mut begin_extn = opt(src, gen_i32);
            let mut end_extn = opt(src, gen_i32);
            // the end styles the format defines, and the relations a real path has between its fields: equal
            // extensions, extensions of zero or of half the width
            if src.prob(1, 3) {
                path_type = Some(*src.pick(&[0i16, 1, 2, 4, 4]));
            }
            if src.prob(1, 4) {
                let w = 2 * src.i64_in(0, 500) as i32;
                width = Some(w);
                match src.below(4) {
                    0 => {
                        begin_extn = Some(w / 2);
                        end_extn = Some(w / 2);
                    }
                    1 => {
                        begin_extn = Some(0);
                        end_extn = Some(0);
                    }
                    2 => end_extn = begin_extn,
                    _ => begin_extn = Some(w),
                }
            }
            MElem::Path { layer: gen_i16(src), datatype: gen_i16(src), xy: gen_xy(src, o, big), path_type, width, begin_extn, end_extn, c: gen_common(src, o) }
        }
        3 => MElem::Sref { name: gen_string(src, o), xy: gen_pt(src), strans: opt(src, gen_strans), c: gen_common(src, o) },
        4 => {
            let mut cols = gen_i16(src);
            let mut rows = gen_i16(src);
            // degenerate arrays are arrays all the same: 1 x 1, one row, one column
            if src.prob(1, 6) {
                cols = *src.pick(&[1i16, 1, 2, 3]);
                rows = *src.pick(&[1i16, 1, 2, 3]);
            }
            // (distinct counts make a swap visible; one time in three equal counts are left as they are)
            if o.distinct_fields && rows == cols && !src.prob(1, 3) {
                rows = cols.wrapping_add(1);
            }
            MElem::Aref { name: gen_string(src, o), xy: [gen_pt(src), gen_pt(src), gen_pt(src)], cols, rows, strans: opt(src, gen_strans), c: gen_common(src, o) }
        }
        5 => MElem::Node { layer: gen_i16(src), nodetype: gen_i16(src), xy: gen_xy(src, o, big), c: gen_common(src, o) },
        _ => MElem::Box { layer: gen_i16(src), boxtype: gen_i16(src), xy: [gen_pt(src), gen_pt(src), gen_pt(src), gen_pt(src), gen_pt(src)], c: gen_common(src, o) },
    }
}
fn gen_big_string(src: &mut Src, o: &GdsGenOpts, big: &mut bool) -> String {
    if o.oversize && src.prob(1, 400) {
        *big = true;
        // 65530 bytes fit a record, 65531 (padded to 65532) do not
        let n = 65528 + src.usize_in(0, 4);
        let c = (b'a' + src.below(26) as u8) as char;
        return std::iter::repeat(c).take(n).collect();
    }
    if o.large_records && src.prob(1, 400) {
        // legal, large: around 32 KB and just below the record limit
        let n = *src.pick(&[600usize, 1027, 32762, 32763, 32764, 32765, 40001, 65529, 65530]);
        // ASCII, or multi-byte characters at every alignment (a short ASCII prefix shifts them)
        let unit = *src.pick(&["a", "q", "é", "中", "😀"]);
        let mut out: String = "x".repeat(src.below(4) as usize);
        while out.len() + unit.len() <= n {
            out.push_str(unit);
        }
        return out;
    }
    gen_string(src, o)
}
pub fn gen_dates(src: &mut Src, o: &GdsGenOpts) -> [i16; 12] {
    let mut d = [0i16; 12];
    let style = src.weighted(&[3, 2]);
    for (i, v) in d.iter_mut().enumerate() {
        *v = if style == 0 {
            // plausible dates
            match i % 6 {
                0 => src.i64_in(70, 130) as i16,
                1 => src.i64_in(1, 12) as i16,
                2 => src.i64_in(1, 28) as i16,
                3 => src.i64_in(0, 23) as i16,
                _ => src.i64_in(0, 59) as i16,
            }
        } else {
            gen_i16(src)
        };
    }
    if o.distinct_fields {
        // make all twelve fields pairwise distinct so that any permutation is visible
        for i in 0..12 {
            while d[..i].contains(&d[i]) {
                d[i] = d[i].wrapping_add(61);
            }
        }
    }
    d
}
pub fn gen_lib(src: &mut Src, o: &GdsGenOpts) -> (MLib, bool) {
    let mut big = false;
    // (names go through the same record-size limit as any other string: the library's own name included)
    let name = if src.prob(1, 8) { gen_big_string(src, o, &mut big) } else { gen_string(src, o) };
    let version = *src.pick(&[3i16, 5, 6, 7, 600, 0, -1, 32767]);
    let mut dates = gen_dates(src, o);
    // a stamp of all zeros (time-stamping switched off), on the library or on a structure
    if src.prob(1, 12) {
        let h = if src.bool() { 0 } else { 6 };
        dates[h..h + 6].copy_from_slice(&[0; 6]);
    }
    let units = (gen_real(src), gen_real(src));
    let ns = if o.large_records && src.prob(1, 80) { src.usize_in(12, 40) } else { src.usize_in(0, o.max_structs) };
    let mut structs: Vec<MStruct> = vec![];
    for _ in 0..ns {
        // coincidences are data too: a struct named like an earlier one or like the library, dates that repeat
        let sname = match src.weighted(&[12, 1, 1]) {
            1 if !structs.is_empty() => structs[src.index(structs.len())].name.clone(),
            2 => name.clone(),
            _ if src.prob(1, 12) => gen_big_string(src, o, &mut big),
            _ => gen_string(src, o),
        };
        let mut sdates = gen_dates(src, o);
        if src.prob(1, 12) {
            let h = if src.bool() { 0 } else { 6 };
            sdates[h..h + 6].copy_from_slice(&[0; 6]);
        }
        if src.prob(1, 8) {
            sdates = dates;
        } else if src.prob(1, 8) {
            let (a, b) = sdates.split_at_mut(6);
            b.copy_from_slice(a);
        }
        let ne = if o.large_records && src.prob(1, 60) { src.usize_in(17, 70) } else { src.usize_in(0, o.max_elems) };
        let mut elems: Vec<MElem> = (0..ne).map(|_| gen_elem(src, o, &mut big)).collect();
        // an element repeated verbatim, at once or later; a reference naming a struct of this library (itself included)
        if !elems.is_empty() && src.prob(1, 8) {
            let (i, j) = (src.index(elems.len()), src.index(elems.len() + 1));
            let e = elems[i].clone();
            elems.insert(j, e);
        }
        let mut last_ref: Option<String> = None;
        for e in elems.iter_mut() {
            if let MElem::Sref { name: n, .. } | MElem::Aref { name: n, .. } = e {
                match src.weighted(&[4, 2, 2, 1]) {
                    1 if !structs.is_empty() => *n = structs[src.index(structs.len())].name.clone(),
                    2 => *n = sname.clone(),
                    // the previous reference's name plus one character, or minus one (`nand2` after `nand2x`)
                    3 => {
                        if let Some(p) = last_ref.as_ref().filter(|p| p.len() < 1000) {
                            if src.bool() || p.is_empty() {
                                *n = format!("{}{}", p, (b'a' + src.below(26) as u8) as char);
                            } else {
                                let mut q = p.clone();
                                q.pop();
                                *n = q;
                            }
                        }
                    }
                    _ => {}
                }
                last_ref = Some(n.clone());
            }
        }
        structs.push(MStruct { name: sname, dates: sdates, elems });
    }
    (MLib { name, version, dates, units, structs }, big)
}
