//! Shared builders for gridded-layout (tetris) inputs.
use layout21raw as raw;
use layout21tetris as t;
use t::stack::*;
use t::validate::ValidStack;

/// As nearly empty a stack as possible while being valid: a boundary layer, no metals, no vias.
pub fn empty_stack() -> ValidStack {
    let mut rawlayers = raw::Layers::default();
    let boundary_layer = Some(rawlayers.add(raw::Layer::from_pairs(0, &[(0, raw::LayerPurpose::Outline)]).expect("layer")));
    Stack {
        units: raw::Units::default(),
        boundary_layer,
        prim: PrimitiveLayer::new((100, 100).into()),
        metals: Vec::new(),
        vias: Vec::new(),
        rawlayers: Some(raw::utils::Ptr::new(rawlayers)),
    }
    .validate()
    .expect("empty stack validates")
}
