//! G-rawlib: harness-side model of a raw layout library, its generator, and the builder that
//! materialises it through layout21raw's public API. Used by C07, C14, C20.

use crate::engine::Src;
use crate::props::c13::{chamfer, gen_histogram, gen_star};
use crate::refmodel::geom as G;
use crate::refmodel::geom::{Orient, P};
use layout21raw as raw;
use raw::utils::Ptr;

#[derive(Clone, Debug, PartialEq, Eq, Hash)]
pub enum RPurpose {
    Drawing,
    Pin,
    Label,
    Obstruction,
    Outline,
    Named(String),
    Other,
}
#[derive(Clone, Debug, PartialEq, Eq, Hash)]
pub struct RLayer {
    pub num: i16,
    pub name: Option<String>,
    /// (purpose number, kind); numbers distinct within a layer, kinds distinct too
    pub purposes: Vec<(i16, RPurpose)>,
}
impl RLayer {
    pub fn label_num(&self) -> Option<i16> {
        self.purposes.iter().find(|p| p.1 == RPurpose::Label).map(|p| p.0)
    }
}
#[derive(Clone, Debug, PartialEq, Eq, Hash, PartialOrd, Ord)]
pub enum RGeom {
    Rect(P, P),
    Poly(Vec<P>),
    Path(Vec<P>, usize),
}
impl RGeom {
    pub fn to_raw(&self) -> raw::Shape {
        let pt = |p: &P| raw::Point::new(p.0 as isize, p.1 as isize);
        match self {
            RGeom::Rect(a, b) => raw::Shape::Rect(raw::Rect { p0: pt(a), p1: pt(b) }),
            RGeom::Poly(v) => raw::Shape::Polygon(raw::Polygon { points: v.iter().map(pt).collect() }),
            RGeom::Path(v, w) => raw::Shape::Path(raw::Path { points: v.iter().map(pt).collect(), width: *w }),
        }
    }
    pub fn from_raw(s: &raw::Shape) -> RGeom {
        let tp = |p: &raw::Point| (p.x as i64, p.y as i64);
        match s {
            raw::Shape::Rect(r) => RGeom::Rect(tp(&r.p0), tp(&r.p1)),
            raw::Shape::Polygon(p) => RGeom::Poly(p.points.iter().map(tp).collect()),
            raw::Shape::Path(p) => RGeom::Path(p.points.iter().map(tp).collect(), p.width),
        }
    }
    pub fn is_rectilinear(&self) -> bool {
        match self {
            RGeom::Poly(v) => (0..v.len()).all(|i| {
                let (a, b) = (v[i], v[(i + 1) % v.len()]);
                a.0 == b.0 || a.1 == b.1
            }),
            _ => true,
        }
    }
    /// closed-region membership where the statement decides it
    pub fn contains(&self, p: P) -> Option<bool> {
        match self {
            RGeom::Rect(a, b) => Some(G::in_rect(*a, *b, p)),
            RGeom::Poly(v) => Some(G::in_polygon(v, p)),
            RGeom::Path(v, w) => match G::path_zone(v, *w as i64, p) {
                G::Zone::MustBeInside => Some(true),
                G::Zone::MustBeOutside => Some(false),
                G::Zone::Unasserted => None,
            },
        }
    }
    /// bounding-box centre outside the shape?
    pub fn centre_outside(&self) -> bool {
        match self {
            RGeom::Poly(v) => {
                let (x0, x1) = (v.iter().map(|p| p.0).min().unwrap(), v.iter().map(|p| p.0).max().unwrap());
                let (y0, y1) = (v.iter().map(|p| p.1).min().unwrap(), v.iter().map(|p| p.1).max().unwrap());
                !G::in_polygon(v, ((x0 + x1).div_euclid(2), (y0 + y1).div_euclid(2)))
            }
            _ => false,
        }
    }
}
#[derive(Clone, Debug, PartialEq, Eq, Hash)]
pub struct RShape {
    pub layer: usize,   // index into RLib.layers
    pub purpose: usize, // index into that layer's purposes
    pub geom: RGeom,
    pub net: Option<String>,
}
#[derive(Clone, Debug, PartialEq, Eq, Hash)]
pub struct RInst {
    pub name: String,
    pub target: usize,
    pub loc: P,
    pub o: Orient,
    pub none_angle: bool,
    /// whole turns added to the angle: the same orientation spelled -90 for 270, 450 for 90, 360 for 0
    pub turns: i8,
}
/// Mostly the plain spelling; now and then one or two whole turns more or less
pub fn gen_turns(src: &mut Src) -> i8 {
    [0i8, 0, 0, 0, 0, 0, 0, 0, -1, 1, -2, 2][src.index(12)]
}
#[derive(Clone, Debug, PartialEq, Eq, Hash)]
pub struct RPort {
    pub net: String,
    /// (layer index, shapes) — layers distinct within a port
    pub shapes: Vec<(usize, Vec<RGeom>)>,
}
#[derive(Clone, Debug, PartialEq, Eq, Hash)]
pub struct RAbs {
    pub outline: Vec<P>,
    pub ports: Vec<RPort>,
    pub blockages: Vec<(usize, Vec<RGeom>)>,
}
#[derive(Clone, Debug, PartialEq, Eq, Hash)]
pub struct RCell {
    pub name: String,
    pub has_layout: bool,
    pub shapes: Vec<RShape>,
    pub insts: Vec<RInst>,
    pub annotations: Vec<(String, P)>,
    pub abs: Option<RAbs>,
}
#[derive(Clone, Debug, PartialEq, Eq, Hash)]
pub struct RLib {
    pub name: String,
    pub units: u8, // 0 micro 1 nano 2 angstrom 3 pico
    pub layers: Vec<RLayer>,
    pub cells: Vec<RCell>,
    pub listing: Vec<usize>,
}
/// Class labels for evidence: which parts of the domain a generated raw library exercises.
pub fn classify(m: &RLib, ctx: &mut crate::engine::Ctx) {
    let shapes = || m.cells.iter().flat_map(|c| c.shapes.iter());
    let abs_geoms = || m.cells.iter().filter_map(|c| c.abs.as_ref()).flat_map(|a| a.ports.iter().flat_map(|p| p.shapes.iter().flat_map(|s| s.1.iter())).chain(a.blockages.iter().flat_map(|b| b.1.iter())));
    let closed = |g: &RGeom| matches!(g, RGeom::Poly(v) if v.len() > 3 && v.first() == v.last());
    if m.cells.iter().any(|c| m.cells.iter().any(|d| d.name != c.name && d.name.eq_ignore_ascii_case(&c.name))) {
        ctx.label("cell names that differ only in case");
    }
    if shapes().any(|s| closed(&s.geom)) || abs_geoms().any(closed) || m.cells.iter().any(|c| c.abs.as_ref().map(|a| a.outline.len() > 4).unwrap_or(false)) {
        ctx.label("polygon or outline repeating its first vertex");
    }
    if shapes().any(|s| matches!(s.geom, RGeom::Rect(a, b) if (a.0 < b.0) != (a.1 < b.1))) {
        ctx.label("rectangle given by its upper-left / lower-right corners");
    }
    if shapes().any(|s| matches!(s.geom, RGeom::Poly(..)) && !s.geom.is_rectilinear()) {
        ctx.label("non-rectilinear polygon");
    }
    if m.cells.iter().any(|c| c.has_layout && c.abs.is_some()) {
        ctx.label("cell with both a layout and an abstract view");
    }
    if m.cells.iter().any(|c| !c.has_layout) {
        ctx.label("abstract-only cell");
    }
    if m.cells.iter().any(|c| c.has_layout && c.shapes.is_empty() && c.insts.is_empty()) {
        ctx.label("cell with an empty layout");
    }
    if m.cells.iter().any(|c| c.insts.iter().any(|i| i.loc == (0, 0))) {
        ctx.label("instance at the origin");
    }
    if m.cells.iter().any(|c| !c.annotations.is_empty()) {
        ctx.label("annotation");
    }
    ctx.label(&format!("{} layers", m.layers.len().min(5)));
}
pub fn units_of(u: u8) -> raw::Units {
    match u {
        0 => raw::Units::Micro,
        1 => raw::Units::Nano,
        2 => raw::Units::Angstrom,
        _ => raw::Units::Pico,
    }
}

#[derive(Clone, Copy)]
pub struct RawGenOpts {
    pub abstracts: bool,
    pub pico: bool,
    pub annotations: bool,
    /// every net-carrying shape sits on a layer that defines a Label purpose (GDS export needs it)
    pub nets_need_label_purpose: bool,
    /// polygons that are not rectilinear may carry nets
    pub nonrect_nets: bool,
    pub max_cells: usize,
    /// some polygons (and outlines) repeat their first vertex at the end; only for conversions that
    /// must keep the point list as it is (GDS closes boundaries itself, so not there)
    pub closed_polygons: bool,
    /// with `abstracts`: may some cells have an abstract and no layout at all?
    pub abs_only_cells: bool,
    /// two purposes of one layer may share a purpose (datatype) number, as pin and label do in some
    /// technologies; only where purposes are compared by number
    pub shared_purpose_numbers: bool,
    /// now and then an L-shaped wire with a small named contact diagonally off its outer corner,
    /// closer to the bend than the wire is wide but clear of it (labels must not leak across)
    pub contact_near_bend: bool,
    /// instances may target cells that have only an abstract view (black-box macros)
    pub instances_of_abstracts: bool,
}
fn maybe_close(src: &mut Src, o: &RawGenOpts, g: RGeom) -> RGeom {
    match g {
        RGeom::Poly(mut v) if o.closed_polygons && src.prob(1, 4) => {
            v.push(v[0]);
            RGeom::Poly(v)
        }
        g => g,
    }
}

const WINDOW: i64 = 64;
fn window_origin(slot: usize) -> P {
    ((slot as i64 % 6) * WINDOW - 150, (slot as i64 / 6) * WINDOW - 120)
}
fn dedupe(v: Vec<P>) -> Vec<P> {
    let mut d: Vec<P> = vec![];
    for p in v {
        if d.last() != Some(&p) {
            d.push(p);
        }
    }
    while d.len() > 1 && d.first() == d.last() {
        d.pop();
    }
    d
}
fn fit(v: Vec<P>, fallback: Vec<P>) -> Vec<P> {
    let v = dedupe(v);
    if v.len() < 3 {
        return fallback;
    }
    let (x0, y0) = (v.iter().map(|p| p.0).min().unwrap(), v.iter().map(|p| p.1).min().unwrap());
    let w: Vec<P> = v.iter().map(|p| (p.0 - x0 + 1, p.1 - y0 + 1)).collect();
    if w.iter().all(|p| p.0 <= 44 && p.1 <= 44) && G::is_simple(&w) {
        w
    } else {
        fallback
    }
}
pub fn gen_polygon(src: &mut Src) -> (Vec<P>, &'static str) {
    let l_shape = vec![(1, 1), (9, 1), (9, 5), (5, 5), (5, 9), (1, 9)];
    match src.below(6) {
        4 => {
            // a rectangle with one corner moved along one axis (right trapezoids etc.)
            let (x0, y0) = (src.i64_in(2, 10), src.i64_in(2, 10));
            let (x1, y1) = (x0 + src.i64_in(4, 20), y0 + src.i64_in(4, 20));
            let mut c = vec![(x0, y0), (x1, y0), (x1, y1), (x0, y1)];
            let k = src.index(4);
            let d = src.i64_in(1, 3);
            match src.below(2) {
                0 => c[k].0 += if c[k].0 == x0 { d } else { -d },
                _ => c[k].1 += if c[k].1 == y0 { d } else { -d },
            }
            if src.bool() {
                c.reverse();
            }
            let r = src.index(4);
            c.rotate_left(r);
            (c, "general")
        }
        5 => {
            // random 3-5 vertex polygon on a small grid
            let n = src.usize_in(3, 5);
            let sc = src.i64_in(1, 6);
            let v: Vec<P> = (0..n).map(|_| (1 + sc * src.i64_in(0, 5), 1 + sc * src.i64_in(0, 5))).collect();
            (fit(v, vec![(1, 1), (21, 1), (21, 6), (1, 11)]), "general")
        }
        0 => (fit(gen_histogram(src, 1), l_shape), "rectilinear"),
        1 => {
            // U shape whose bounding-box centre is outside
            let (w, h, t) = (src.i64_in(6, 30), src.i64_in(6, 30), src.i64_in(1, 2));
            // (one arm may be shorter: a J; its top may sit level with the centre of the bounding box)
            let hr = match src.weighted(&[3, 1, 1]) {
                0 => h,
                1 => (h / 2).max(t + 1),
                _ => src.i64_in(t + 1, h),
            };
            let u = vec![(0, 0), (w, 0), (w, hr), (w - t, hr), (w - t, t), (t, t), (t, h), (0, h)];
            let mut v = fit(u, l_shape);
            let r = src.index(v.len());
            v.rotate_left(r);
            if src.bool() {
                v.reverse();
            }
            (v, "rectilinear")
        }
        2 => {
            let h = gen_histogram(src, 4);
            let c = chamfer(src, &h);
            let f = fit(c, l_shape.clone());
            let k = if f == l_shape { "rectilinear" } else { "45-degree" };
            (f, k)
        }
        _ => (fit(gen_star(src), vec![(1, 1), (20, 3), (10, 20)]), "general"),
    }
}
pub fn gen_manhattan_path(src: &mut Src) -> Vec<P> {
    let n = src.usize_in(2, 6);
    let mut p = (src.i64_in(8, 36), src.i64_in(8, 36));
    let mut pts = vec![p];
    let mut horiz = src.bool();
    for _ in 1..n {
        let mut d = src.signed(10);
        if d == 0 {
            d = 3;
        }
        let q = if horiz { ((p.0 + d).clamp(4, 40), p.1) } else { (p.0, (p.1 + d).clamp(4, 40)) };
        if q != p {
            pts.push(q);
            p = q;
        }
        horiz = !horiz;
    }
    if pts.len() < 2 {
        pts.push((pts[0].0 + 3, pts[0].1));
    }
    pts
}
pub fn gen_geom(src: &mut Src, slot: usize) -> (RGeom, &'static str) {
    let o = window_origin(slot);
    let sh = |p: P| (p.0 + o.0, p.1 + o.1);
    match src.weighted(&[3, 3, 2]) {
        0 => {
            let a = (src.i64_in(1, 40), src.i64_in(1, 40));
            let b = (src.i64_in(1, 40), src.i64_in(1, 40));
            (RGeom::Rect(sh(a), sh(b)), "rect")
        }
        1 => {
            let (v, k) = gen_polygon(src);
            (RGeom::Poly(v.into_iter().map(sh).collect()), k)
        }
        _ => {
            let pts = gen_manhattan_path(src);
            (RGeom::Path(pts.into_iter().map(sh).collect(), src.usize_in(0, 8)), "path")
        }
    }
}
const NETS: &[&str] = &["vdd", "VSS", "Net1", "out<3>", "clk_A", "a", "Q", "größe", "VDD_Ä", "ÜBER_Ω"];

pub fn gen_layers(src: &mut Src, share_numbers: bool) -> Vec<RLayer> {
    let n = src.usize_in(1, 5);
    let mut used: Vec<i16> = vec![];
    let mut layers = vec![];
    for i in 0..n {
        let mut num = match src.weighted(&[6, 1]) {
            0 => src.below(40) as i16,
            _ => *src.pick(&[i16::MAX - 1, i16::MAX, 255, 1000]),
        };
        while used.contains(&num) {
            num = num.wrapping_add(1).max(0);
        }
        used.push(num);
        let name = if src.bool() { Some(format!("{}{}", src.pick(&["met", "via", "poly", "nwell"]), i)) } else { None };
        // purposes: always Drawing; usually Label; some of Pin / Obstruction / Other / Named
        let mut purposes: Vec<(i16, RPurpose)> = vec![];
        let mut pnums: Vec<i16> = vec![];
        let mut add = |src: &mut Src, p: RPurpose, purposes: &mut Vec<(i16, RPurpose)>| {
            // (purpose numbers are 16-bit numbers like layer numbers: now and then negative, or the largest)
            let mut k = match src.below(12) {
                0 => -1 - src.below(60) as i16,
                1 => *src.pick(&[i16::MIN, -32000, 32700]),
                _ => src.below(60) as i16,
            };
            // a purpose may carry the number of its own layer (pin 16/16 beside drawing 16/0)
            if src.prob(1, 6) && !pnums.contains(&num) {
                k = num;
            }
            if share_numbers && !pnums.is_empty() && !matches!(p, RPurpose::Other | RPurpose::Named(_)) && src.prob(1, 5) {
                k = pnums[src.index(pnums.len())];
            } else {
                while pnums.contains(&k) {
                    k += 1;
                }
            }
            pnums.push(k);
            purposes.push((k, p));
        };
        add(src, RPurpose::Drawing, &mut purposes);
        if !src.prob(1, 8) {
            add(src, RPurpose::Label, &mut purposes);
        }
        if src.bool() {
            add(src, RPurpose::Pin, &mut purposes);
        }
        if src.bool() {
            add(src, RPurpose::Obstruction, &mut purposes);
        }
        if src.prob(1, 4) {
            add(src, RPurpose::Outline, &mut purposes);
        }
        if src.prob(1, 3) {
            add(src, RPurpose::Other, &mut purposes);
        }
        if src.prob(1, 4) {
            add(src, RPurpose::Named("blockage".into()), &mut purposes);
        }
        layers.push(RLayer { num, name, purposes });
    }
    layers
}
/// Instance names: usually distinct, but nothing requires it; instances read from GDSII have none at all
pub fn gen_inst_name(src: &mut Src, k: usize) -> String {
    match src.weighted(&[8, 2, 1, 1, 1]) {
        0 => format!("i{}", k),
        1 => String::new(),
        2 => "i0".to_string(),
        3 => format!("x {}<{}> ü", k, k),
        _ => format!("I{}/sub.inst[{}]", k, k),
    }
}
pub fn gen_rawlib(src: &mut Src, o: &RawGenOpts) -> RLib {
    let layers = gen_layers(src, o.shared_purpose_numbers);
    let nc = src.usize_in(1, o.max_cells);
    let case_twins = src.prob(1, 6);
    let mut cells: Vec<RCell> = vec![];
    for ci in 0..nc {
        let abs_only = o.abstracts && o.abs_only_cells && ci > 0 && src.prob(1, 6);
        let has_layout = !abs_only;
        let mut shapes = vec![];
        let mut insts = vec![];
        let mut annotations = vec![];
        if has_layout {
            // (now and then a cell with more shapes than any small inline buffer holds)
            let ns = if src.prob(1, 60) { src.usize_in(9, 19) } else { src.usize_in(if ci == 0 { 1 } else { 0 }, 4) };
            for k in 0..ns {
                let layer = src.index(layers.len());
                // shapes never use the Label purpose themselves
                let cand: Vec<usize> = (0..layers[layer].purposes.len()).filter(|i| layers[layer].purposes[*i].1 != RPurpose::Label).collect();
                let purpose = cand[src.index(cand.len())];
                // (windows 5-7 are left to the wire-and-contact family below)
                let (geom, kind) = gen_geom(src, if k < 5 { k } else { k + 3 });
                let geom = maybe_close(src, o, geom);
                let mut net = if src.prob(3, 5) { Some(src.pick(NETS).to_string()) } else { None };
                if net.is_some() && o.nets_need_label_purpose && layers[layer].label_num().is_none() {
                    net = None;
                }
                if net.is_some() && !o.nonrect_nets && !geom.is_rectilinear() {
                    net = None;
                }
                let _ = kind;
                shapes.push(RShape { layer, purpose, geom, net });
            }
            if o.contact_near_bend && src.prob(1, 6) {
                if let Some(layer) = (0..layers.len()).find(|l| layers[*l].label_num().is_some()) {
                    let cand: Vec<usize> = (0..layers[layer].purposes.len()).filter(|i| layers[layer].purposes[*i].1 != RPurpose::Label).collect();
                    let purpose = cand[src.index(cand.len())];
                    let og = window_origin(5);
                    let w = 2 * src.i64_in(2, 4); // 4, 6, 8
                    let j = (og.0 + 30, og.1 + 30);
                    // which way the wire turns decides where the outer corner is
                    let (sx, sy) = (if src.bool() { 1 } else { -1 }, if src.bool() { 1 } else { -1 });
                    let wire = vec![(j.0 - sx * 24, j.1), j, (j.0, j.1 - sy * 24)];
                    let (a, b) = (w / 2 + 1, w - 1);
                    let contact = ((j.0 + sx * a, j.1 + sy * a), (j.0 + sx * b, j.1 + sy * b));
                    shapes.push(RShape { layer, purpose, geom: RGeom::Path(wire, w as usize), net: if src.bool() { Some("wire_l".to_string()) } else { None } });
                    shapes.push(RShape { layer, purpose, geom: RGeom::Rect(contact.0, contact.1), net: Some("ct".to_string()) });
                }
            }
            // a pin drawn on a strap: a small rectangle with a net of its own inside a large one on the same layer,
            // the strap listed first, the pin clear of the strap's centre (each keeps the name it had)
            if o.contact_near_bend && src.prob(1, 8) {
                if let Some(layer) = (0..layers.len()).find(|l| layers[*l].label_num().is_some()) {
                    let cand: Vec<usize> = (0..layers[layer].purposes.len()).filter(|i| layers[layer].purposes[*i].1 != RPurpose::Label).collect();
                    let purpose = cand[src.index(cand.len())];
                    let (x0, y0) = (6000 + 300 * src.i64_in(0, 3), 7000);
                    let dx = if src.bool() { 70 } else { 12 };
                    shapes.push(RShape { layer, purpose, geom: RGeom::Rect((x0, y0), (x0 + 100, y0 + 20)), net: Some("strap".to_string()) });
                    shapes.push(RShape { layer, purpose, geom: RGeom::Rect((x0 + dx, y0 + 4), (x0 + dx + 10, y0 + 12)), net: Some("strap_sense".to_string()) });
                }
            }
            // a die-sized strip far from everything else: both corners are 32-bit coordinates, their
            // distance is not (nothing in the format limits the extent of a shape)
            if src.prob(1, 30) {
                let y = *src.pick(&[2_000_000_000i64, -2_000_000_100]);
                shapes.push(RShape { layer: src.index(layers.len()), purpose: 0, geom: RGeom::Rect((-2_100_000_000, y), (2_100_000_000, y + 10)), net: None });
            }
            // the very corners of the 32-bit range: a triangle, a path and (below) an instance whose coordinates
            // are the smallest / largest numbers GDSII can hold
            if src.prob(1, 12) {
                const LO: i64 = i32::MIN as i64;
                const HI: i64 = i32::MAX as i64;
                let layer = src.index(layers.len());
                match src.below(3) {
                    0 => shapes.push(RShape { layer, purpose: 0, geom: RGeom::Poly(vec![(LO, LO), (LO + 7, LO), (LO, LO + 9)]), net: None }),
                    1 => shapes.push(RShape { layer, purpose: 0, geom: RGeom::Poly(vec![(HI, HI), (HI - 7, HI), (HI - 7, HI - 4), (HI, HI - 9)]), net: None }),
                    _ => shapes.push(RShape { layer, purpose: 0, geom: RGeom::Path(vec![(LO, HI), (LO, HI - 20), (LO + 30, HI - 20)], 0), net: None }),
                }
            }
            // instances of earlier cells that have a layout
            let targets: Vec<usize> = (0..ci).filter(|i| cells[*i].has_layout || o.instances_of_abstracts).collect();
            if !targets.is_empty() {
                let ni = if src.prob(1, 60) { src.usize_in(9, 40) } else { src.usize_in(0, 3) };
                for k in 0..ni {
                    let t = if src.bool() { *targets.last().unwrap() } else { targets[src.index(targets.len())] };
                    insts.push(RInst { name: gen_inst_name(src, k), target: t, loc: (src.signed(5000), src.signed(5000)), o: Orient::from_index(src.index(8)), none_angle: src.bool(), turns: gen_turns(src) });
                }
                if !insts.is_empty() && src.prob(1, 12) {
                    let k = src.index(insts.len());
                    insts[k].loc = *src.pick(&[(i32::MIN as i64, i32::MAX as i64), (i32::MAX as i64, i32::MIN as i64), (i32::MIN as i64, 0)]);
                }
                // coincidences: an instance repeated verbatim; two instances sharing their location, or their
                // location with x and y exchanged
                if !insts.is_empty() && src.prob(1, 6) {
                    let mut twin = insts[src.index(insts.len())].clone();
                    match src.below(3) {
                        0 => {}
                        1 => twin.o = Orient::from_index(src.index(8)),
                        _ => twin.loc = (twin.loc.1, twin.loc.0),
                    }
                    insts.push(twin);
                }
            }
            if o.annotations && src.prob(1, 3) {
                annotations.push((src.pick(&["note", "TODO: fix", "A b", "Rev B \n", "OWNER   ", "\ttab\t", " lead", "", "two\nlines\n"]).to_string(), (src.signed(100), src.signed(100))));
            }
        }
        let abs = if o.abstracts && (abs_only || src.prob(1, 4)) {
            let (w, h) = (src.i64_in(10, 400), src.i64_in(10, 400));
            let mut outline = vec![(0, 0), (w, 0), (w, h), (0, h)];
            if o.closed_polygons && src.prob(1, 4) {
                outline.push((0, 0));
            }
            let np = src.usize_in(0, 3);
            let mut ports: Vec<RPort> = vec![];
            let pin_layers: Vec<usize> = (0..layers.len()).filter(|i| layers[*i].purposes.iter().any(|p| p.1 == RPurpose::Pin) && layers[*i].name.is_some()).collect();
            for pi in 0..np {
                if pin_layers.is_empty() {
                    break;
                }
                let nl = src.usize_in(1, pin_layers.len().min(3));
                let mut idx: Vec<usize> = pin_layers.clone();
                src.shuffle(&mut idx);
                let shapes = idx[..nl].iter().enumerate().map(|(k, l)| (*l, (0..src.usize_in(1, 2)).map(|j| { let g = gen_geom(src, pi * 6 + k * 2 + j).0; maybe_close(src, o, g) }).collect())).collect();
                // port names in no particular order (the list is ordered data, not a set)
                const PORT_NAMES: &[&str] = &["vpwr", "vgnd", "a", "y", "clk", "Q"];
                // (one net may head several ports: a supply rail at the top and at the bottom)
                let net = if !ports.is_empty() && src.prob(1, 6) { ports[src.index(ports.len())].net.clone() } else { PORT_NAMES[(pi * 5 + w as usize + h as usize) % PORT_NAMES.len()].to_string() };
                ports.push(RPort { net, shapes });
            }
            // a declared pin with nothing drawn yet: a port without a single layer entry (only for the
            // conversions that keep the model as it is, the ones that also keep closing vertices)
            if o.closed_polygons && src.prob(1, 8) {
                let at = src.index(ports.len() + 1);
                ports.insert(at, RPort { net: "feedthru".to_string(), shapes: vec![] });
            }
            let obs_layers: Vec<usize> = (0..layers.len()).filter(|i| layers[*i].purposes.iter().any(|p| p.1 == RPurpose::Obstruction) && layers[*i].name.is_some()).collect();
            let nb = src.usize_in(0, obs_layers.len().min(3));
            let mut idx: Vec<usize> = obs_layers.clone();
            src.shuffle(&mut idx);
            let mut blockages: Vec<(usize, Vec<RGeom>)> = idx[..nb].iter().enumerate().map(|(k, l)| (*l, (0..src.usize_in(1, 2)).map(|j| { let g = gen_geom(src, 20 + k * 2 + j).0; maybe_close(src, o, g) }).collect())).collect();
            // an obstruction may be listed twice (LEF files repeat them): each entry is kept
            for b in blockages.iter_mut() {
                if src.prob(1, 5) {
                    let g = b.1[src.index(b.1.len())].clone();
                    let at = src.index(b.1.len() + 1);
                    b.1.insert(at, g);
                }
            }
            Some(RAbs { outline, ports, blockages })
        } else {
            None
        };
        // library cell names run long (foundry kits prefix everything): some beyond 32 characters
        // ... and names are case-sensitive: `cell0`, `CELL0` and `Cell0` are three cells
        let name = if case_twins && ci % 2 == 1 {
            if ci % 4 == 1 { format!("CELL{}", ci - 1) } else { format!("Cell{}", ci - 3) }
        } else if !case_twins && src.prob(1, 6) {
            format!("cell{}_sky130_fd_sc_hd__lpflow_inputisolatch_1", ci)
        } else {
            format!("cell{}", ci)
        };
        cells.push(RCell { name, has_layout, shapes, insts, annotations, abs });
    }
    let mut listing: Vec<usize> = (0..nc).collect();
    src.shuffle(&mut listing);
    let units = src.below(if o.pico { 4 } else { 3 }) as u8;
    RLib { name: src.pick(&["lib", "My Lib", "l"]).to_string(), units, layers, cells, listing }
}

/// Deep hierarchies: a chain of 30-200 cells, each instantiating the one below (and, now and then, a leaf the
/// one below instantiates as well), listed top-down, bottom-up or shuffled, on top of a small generated
/// library. Returns the library and a label (depth class, listing).
pub fn gen_deep(src: &mut Src, base_opts: &RawGenOpts) -> (RLib, String) {
    let mut m = gen_rawlib(src, &RawGenOpts { max_cells: 2, ..base_opts.clone() });
    let base = m.cells.len();
    let depth = *src.pick(&[30usize, 31, 32, 33, 34, 35, 48, 63, 64, 65, 66, 100, 127, 128, 129, 130, 200]);
    let template: Vec<RShape> = m.cells.iter().find(|c| c.has_layout && !c.shapes.is_empty()).map(|c| vec![c.shapes[0].clone()]).unwrap_or_default();
    let leaf: Option<usize> = (0..base).find(|i| m.cells[*i].has_layout);
    for d in 0..depth {
        let lower: Option<usize> = if d > 0 { Some(base + d - 1) } else { leaf };
        let mut insts: Vec<RInst> = lower.map(|t| vec![RInst { name: "i0".into(), target: t, loc: (src.signed(500), src.signed(500)), o: Orient::from_index(src.index(8)), none_angle: src.bool(), turns: gen_turns(src) }]).unwrap_or_default();
        // a shared leaf: named by this level after the level below, which may name it too
        if let (Some(l), true) = (leaf, d > 0 && src.prob(1, 3)) {
            let i = RInst { name: "shared".into(), target: l, loc: (src.signed(500), src.signed(500)), o: Orient::from_index(src.index(8)), none_angle: src.bool(), turns: gen_turns(src) };
            if src.prob(1, 4) {
                insts.insert(0, i);
            } else {
                insts.push(i);
            }
        }
        m.cells.push(RCell { name: format!("level_{}", d), has_layout: true, shapes: if d % 7 == 0 { template.clone() } else { vec![] }, insts, annotations: vec![], abs: None });
    }
    let mut chain: Vec<usize> = (base..base + depth).collect();
    let how = src.below(3);
    match how {
        0 => chain.reverse(), // top-down
        1 => {}               // bottom-up
        _ => src.shuffle(&mut chain),
    }
    if src.bool() {
        m.listing.extend(chain);
    } else {
        chain.extend(m.listing.clone());
        m.listing = chain;
    }
    let label = format!("chain of {} cells listed {}", if depth <= 32 { "<= 32" } else if depth <= 64 { "33-64" } else { "> 64" }, ["top-down", "bottom-up", "shuffled"][how as usize]);
    (m, label)
}

pub struct Built {
    pub lib: raw::Library,
    pub keys: Vec<raw::LayerKey>,
    pub cells: Vec<Ptr<raw::Cell>>,
}
pub fn purpose_of(p: &(i16, RPurpose)) -> raw::LayerPurpose {
    match &p.1 {
        RPurpose::Drawing => raw::LayerPurpose::Drawing,
        RPurpose::Pin => raw::LayerPurpose::Pin,
        RPurpose::Label => raw::LayerPurpose::Label,
        RPurpose::Obstruction => raw::LayerPurpose::Obstruction,
        RPurpose::Outline => raw::LayerPurpose::Outline,
        RPurpose::Named(s) => raw::LayerPurpose::Named(s.clone(), p.0),
        RPurpose::Other => raw::LayerPurpose::Other(p.0),
    }
}
/// Materialise the model. Every call builds fresh hash maps (fresh per-map hash keys).
pub fn build(m: &RLib) -> Built {
    build_named(m, false)
}
/// `own_view_names`: layout and abstract views of some cells carry names of their own (a view's name
/// is a separate field; only conversions that do not go through names of views should be given these)
pub fn build_named(m: &RLib, own_view_names: bool) -> Built {
    let mut layers = raw::Layers::default();
    let mut keys = vec![];
    for l in &m.layers {
        let mut layer = match &l.name {
            Some(n) => raw::Layer::new(l.num, n.clone()),
            None => raw::Layer::from_num(l.num),
        };
        for p in &l.purposes {
            layer.add_purpose(p.0, purpose_of(p)).expect("purpose");
        }
        keys.push(layers.add(layer));
    }
    let mut lib = raw::Library::new(m.name.clone(), units_of(m.units));
    lib.layers = Ptr::new(layers);
    let mut ptrs: Vec<Ptr<raw::Cell>> = vec![];
    for c in &m.cells {
        let mut cell = raw::Cell::new(c.name.clone());
        if c.has_layout {
            let lname = if own_view_names && c.name.len() + c.shapes.len() % 2 == 1 { format!("{}_layout", c.name) } else { c.name.clone() };
            let mut layout = raw::Layout { name: lname, ..Default::default() };
            for s in &c.shapes {
                layout.elems.push(raw::Element { net: s.net.clone(), layer: keys[s.layer], purpose: purpose_of(&m.layers[s.layer].purposes[s.purpose]), inner: s.geom.to_raw() });
            }
            for i in &c.insts {
                let angle = if i.o.rot == 0 && i.turns == 0 && i.none_angle { None } else { Some(i.o.angle() + 360.0 * i.turns as f64) };
                layout.insts.push(raw::Instance { inst_name: i.name.clone(), cell: ptrs[i.target].clone(), loc: raw::Point::new(i.loc.0 as isize, i.loc.1 as isize), reflect_vert: i.o.refl, angle });
            }
            for (s, p) in &c.annotations {
                layout.annotations.push(raw::TextElement { string: s.clone(), loc: raw::Point::new(p.0 as isize, p.1 as isize) });
            }
            cell.layout = Some(layout);
        }
        if let Some(a) = &c.abs {
            let aname = if own_view_names && c.shapes.len() % 2 == 0 { format!("{}_abstract", c.name) } else { c.name.clone() };
            let mut abs = raw::Abstract::new(aname, raw::Polygon { points: a.outline.iter().map(|p| raw::Point::new(p.0 as isize, p.1 as isize)).collect() });
            for p in &a.ports {
                let mut port = raw::AbstractPort::new(p.net.clone());
                for (l, shapes) in &p.shapes {
                    port.shapes.insert(keys[*l], shapes.iter().map(|g| g.to_raw()).collect());
                }
                abs.ports.push(port);
            }
            for (l, shapes) in &a.blockages {
                abs.blockages.insert(keys[*l], shapes.iter().map(|g| g.to_raw()).collect());
            }
            cell.abs = Some(abs);
        }
        ptrs.push(Ptr::new(cell));
    }
    for &i in &m.listing {
        lib.cells.push(ptrs[i].clone());
    }
    Built { lib, keys, cells: ptrs }
}
