//! G-lef / R-lefrender: generator of `lef21::LefLibrary` values inside the supported subset and
//! the reader's image, and an independent renderer to LEF text with seeded lexical variation.
//! The renderer follows the LEF 5.x syntax and shares no code with lef21's writer.

use crate::engine::Src;
use lef21::*;

pub const KEYWORDS: &[&str] = &[
    "LIBRARY", "VERSION", "FOREIGN", "ORIGIN", "SOURCE", "NAMESCASESENSITIVE", "NOWIREEXTENSIONATPIN", "MACRO", "END", "PIN", "PORT", "OBS", "LAYER",
    "DIRECTION", "USE", "SHAPE", "PATH", "POLYGON", "RECT", "VIA", "WIDTH", "CLASS", "SYMMETRY", "ROWPATTERN", "SITE", "SIZE", "DO", "ITERATE", "STEP", "BY",
    "BUSBITCHARS", "DIVIDERCHAR", "BEGINEXT", "ENDEXT", "TRISTATE", "INPUT", "OUTPUT", "INOUT", "FEEDTHRU", "EXCEPTPGNET", "DESIGNRULEWIDTH", "SPACING", "BUMP",
    "EEQ", "FIXEDMASK", "MASK", "USEMINSPACING", "TAPERRULE", "NETEXPR", "SUPPLYSENSITIVITY", "GROUNDSENSITIVITY", "MUSTJOIN", "PROPERTY", "MANUFACTURINGGRID",
    "CLEARANCEMEASURE", "DENSITY", "UNITS", "TIME", "NANOSECONDS", "CAPACITANCE", "PICOFARADS", "RESISTANCE", "OHMS", "POWER", "MILLIWATTS", "CURRENT",
    "MILLIAMPS", "VOLTAGE", "VOLTS", "DATABASE", "MICRONS", "FREQUENCY", "MEGAHERTZ", "ANTENNAMODEL", "ANTENNADIFFAREA", "ANTENNAGATEAREA",
    "ANTENNAPARTIALMETALAREA", "ANTENNAPARTIALMETALSIDEAREA", "ANTENNAPARTIALCUTAREA", "ANTENNAPARTIALDIFFAREA", "ANTENNAMAXAREACAR", "ANTENNAMAXSIDEAREACAR",
    "ANTENNAMAXCUTCAR", "DEFAULT", "VIARULE", "CUTSIZE", "LAYERS", "CUTSPACING", "ENCLOSURE", "ROWCOL", "OFFSET", "PATTERN", "PROPERTYDEFINITIONS", "STRING",
    "REAL", "RANGE", "INTEGER", "MAXVIASTACK", "GENERATE", "NONDEFAULTRULE",
];
const ANTENNA_KEYS: &[&str] = &[
    "ANTENNADIFFAREA", "ANTENNAGATEAREA", "ANTENNAPARTIALMETALAREA", "ANTENNAPARTIALMETALSIDEAREA", "ANTENNAPARTIALCUTAREA", "ANTENNAPARTIALDIFFAREA",
    "ANTENNAMAXAREACAR", "ANTENNAMAXSIDEAREACAR", "ANTENNAMAXCUTCAR",
];

#[derive(Clone, Copy)]
pub struct LefGenOpts {
    /// PROPERTY statements on macros and pins
    pub properties: bool,
    pub sites: bool,
    pub max_macros: usize,
}
impl Default for LefGenOpts {
    fn default() -> Self {
        LefGenOpts { properties: true, sites: true, max_macros: 3 }
    }
}

// ------------------------------------------------------------------------------------------
// value generator
// ------------------------------------------------------------------------------------------
pub fn gen_name(src: &mut Src) -> String {
    const FIRST: &[u8] = b"abcdefghijklmnopqrstuvwxyzABCDEFGHIJKLMNOPQRSTUVWXYZ";
    const REST: &[u8] = b"abcdefghijklmnopqrstuvwxyzABCDEFGHIJKLMNOPQRSTUVWXYZ0123456789_[]<>/.$-!:";
    // one name in six comes from a small pool, so that names coincide: two macros, a macro and its pin, a layer
    // and a via, names that differ only in case
    if src.prob(1, 6) {
        // (... and words that some number parsers take for numbers)
        return src.pick(&["a", "A", "aa", "m1", "M1", "VDD", "vdd", "core", "x1", "a[0]", "a<0>", "inf", "NaN", "Infinity", "e5", "x1e5"]).to_string();
    }
    let n = src.usize_in(1, 10);
    let mut s = String::new();
    s.push(FIRST[src.index(FIRST.len())] as char);
    for _ in 1..n {
        s.push(REST[src.index(REST.len())] as char);
    }
    // names are not confined to ASCII: a letter of another script now and then, anywhere in the name
    if src.prob(1, 8) {
        let c = *src.pick(&['é', 'µ', 'Ω', '中', 'ß', 'я']);
        let at = src.index(s.chars().count() + 1);
        let byte_at = s.char_indices().nth(at).map(|x| x.0).unwrap_or(s.len());
        s.insert(byte_at, c);
    }
    if KEYWORDS.contains(&s.to_ascii_uppercase().as_str()) {
        s.push_str("_1");
    }
    s
}
/// A decimal with <= 9 integer and <= 6 fractional digits
thread_local! {
    /// whole numbers beyond 64 bits among the generated numbers (switched on by the checks of the LEF reader/writer)
    static BIG_NUMBERS: std::cell::Cell<bool> = const { std::cell::Cell::new(false) };
}
pub fn set_big_numbers(on: bool) {
    BIG_NUMBERS.with(|c| c.set(on));
}
pub fn gen_dec(src: &mut Src) -> LefDecimal {
    if BIG_NUMBERS.with(|c| c.get()) && src.prob(1, 80) {
        // the ends of the 64-bit range, their outer neighbours, and beyond (every LEF number is a 96-bit decimal)
        let v: i128 = *src.pick(&[i64::MAX as i128, i64::MIN as i128, i64::MAX as i128 + 1, i64::MIN as i128 - 1, 100_000_000_000_000_000_000, 1i128 << 70, -(1i128 << 70), u64::MAX as i128]);
        return LefDecimal::from_i128_with_scale(v, 0);
    }
    let scale = src.weighted(&[3, 2, 2, 2, 1, 1, 1]) as u32;
    let m = match src.weighted(&[5, 3, 1, 2]) {
        0 => src.signed(5000),
        1 => src.signed(999_999_999),
        2 => 0,
        // a few favourite values, so that numbers coincide (x = y, two equal corners, a size equal to a pitch)
        _ => return *src.pick(&[LefDecimal::new(1, 0), LefDecimal::new(5, 1), LefDecimal::new(100, 0), LefDecimal::new(-1, 0), LefDecimal::new(25, 2), LefDecimal::new(2, 0)]),
    };
    LefDecimal::new(m, scale)
}
pub fn gen_pos_dec(src: &mut Src) -> LefDecimal {
    let scale = src.weighted(&[3, 2, 2, 2, 1]) as u32;
    LefDecimal::new(src.i64_in(0, 500_000), scale)
}
pub fn gen_pt(src: &mut Src) -> LefPoint {
    LefPoint::new(gen_dec(src), gen_dec(src))
}
fn gen_mask(src: &mut Src) -> Option<LefMask> {
    if src.prob(1, 4) {
        // (a whole number, now and then written with decimals: 2.0, 1.00)
        let k = src.i64_in(1, 3);
        Some(LefMask::new(match src.below(6) {
            0 => LefDecimal::new(k * 10, 1),
            1 => LefDecimal::new(k * 100, 2),
            _ => LefDecimal::new(k, 0),
        }))
    } else {
        None
    }
}
fn gen_string_literal(src: &mut Src) -> String {
    const CH: &[u8] = b"abc XYZ019_;:#.,()+-=/";
    if src.prob(1, 160) {
        // a long literal (a description, a net expression): a few thousand characters of blank-separated words,
        // longer than any line-length limit a writer might assume
        let total = *src.pick(&[1100usize, 2040, 2049, 4100, 9000]) + src.usize_in(0, 9);
        let mut s = String::from("\"");
        while s.len() < total {
            let w = src.usize_in(1, 9);
            for _ in 0..w {
                s.push(CH[src.index(3)] as char);
            }
            s.push_str(*src.pick(&[" ", " ", "  ", " ; ", " # "]));
        }
        s.push('"');
        return s;
    }
    let n = src.usize_in(0, 8);
    let mut s = String::from("\"");
    for _ in 0..n {
        if src.prob(1, 12) {
            s.push(*src.pick(&['é', 'µ', '中', '😀', 'Ω']));
        } else {
            s.push(CH[src.index(CH.len())] as char);
        }
    }
    s.push('"');
    s
}
pub fn gen_shape(src: &mut Src) -> LefShape {
    match src.below(3) {
        0 => LefShape::Rect(gen_mask(src), gen_pt(src), gen_pt(src)),
        1 => {
            // (one list in ten is longer than any small inline buffer)
            let n = if src.prob(1, 10) { src.usize_in(7, 20) } else { src.usize_in(3, 6) };
            let m = gen_mask(src);
            let pts = (0..n).map(|_| gen_pt(src)).collect();
            LefShape::Polygon(m, maybe_closed(src, pts))
        }
        _ => {
            let n = if src.prob(1, 10) { src.usize_in(7, 20) } else { src.usize_in(2, 5) };
            LefShape::Path(gen_mask(src), (0..n).map(|_| gen_pt(src)).collect())
        }
    }
}
pub fn gen_geometry(src: &mut Src) -> LefGeometry {
    let shape = gen_shape(src);
    if src.prob(1, 5) {
        LefGeometry::Iterate {
            shape,
            pattern: LefStepPattern { numx: LefDecimal::new(src.i64_in(1, 9), 0), numy: LefDecimal::new(src.i64_in(1, 9), 0), spacex: gen_dec(src), spacey: gen_dec(src) },
        }
    } else {
        LefGeometry::Shape(shape)
    }
}
/// The same layer may be named by several LAYER statements of one port or obstruction block (each keeps its own entry)
fn repeat_layer_names(src: &mut Src, mut v: Vec<LefLayerGeometries>) -> Vec<LefLayerGeometries> {
    for i in 1..v.len() {
        if src.prob(1, 4) {
            v[i].layer_name = v[src.index(i)].layer_name.clone();
        }
    }
    v
}
pub fn gen_layer_geoms(src: &mut Src) -> LefLayerGeometries {
    let ng = src.usize_in(0, 4);
    let nv = src.weighted(&[5, 2, 1]);
    LefLayerGeometries {
        layer_name: gen_name(src),
        geometries: (0..ng).map(|_| gen_geometry(src)).collect(),
        vias: (0..nv).map(|_| LefVia { via_name: gen_name(src), pt: gen_pt(src) }).collect(),
        except_pg_net: if src.prob(1, 5) { Some(true) } else { None },
        spacing: match src.weighted(&[4, 1, 1]) {
            0 => None,
            1 => Some(LefLayerSpacing::Spacing(gen_pos_dec(src))),
            _ => Some(LefLayerSpacing::DesignRuleWidth(gen_pos_dec(src))),
        },
        width: if src.prob(1, 3) { Some(gen_pos_dec(src)) } else { None },
    }
}
fn opt<T>(src: &mut Src, num: u64, den: u64, f: impl FnOnce(&mut Src) -> T) -> Option<T> {
    if src.prob(num, den) {
        Some(f(src))
    } else {
        None
    }
}
/// Property names: half from a small pool, so that a PROPERTY meets the definition of its name (of any type
/// and object class) and two definitions share a name across object classes
fn gen_prop_name(src: &mut Src) -> String {
    if src.bool() {
        src.pick(&["vendor", "drive", "p1", "LEF58_TYPE", "a"]).to_string()
    } else {
        gen_name(src)
    }
}
fn gen_property(src: &mut Src) -> LefProperty {
    let value = match src.below(3) {
        0 => gen_name(src),
        // (a property value is kept as it is spelled, also when the number is spelled in an unusual way)
        1 if src.prob(1, 4) => src.pick(&[".125", "-.5", "2.", "007", "1e3", "1.50", "-0", "0.", "1E-2"]).to_string(),
        1 => spell_plain(&gen_dec(src)),
        _ => gen_string_literal(src),
    };
    LefProperty { name: gen_prop_name(src), value }
}
fn gen_symmetry(src: &mut Src) -> Vec<LefSymmetry> {
    let n = src.usize_in(0, 3); // `SYMMETRY ;` (no values) is distinct from no statement
    (0..n).map(|_| *src.pick(&[LefSymmetry::X, LefSymmetry::Y, LefSymmetry::R90])).collect()
}
pub fn gen_pin(src: &mut Src, o: &LefGenOpts) -> LefPin {
    let np = src.usize_in(0, 2);
    let na = src.weighted(&[4, 2, 1, 1]);
    LefPin {
        name: gen_name(src),
        ports: (0..np)
            .map(|_| {
                let nl = src.usize_in(0, 2);
                LefPort { class: opt(src, 1, 3, |s| *s.pick(&[LefPortClass::None, LefPortClass::Core, LefPortClass::Bump])), layers: { let v = (0..nl).map(|_| gen_layer_geoms(src)).collect(); repeat_layer_names(src, v) } }
            })
            .collect(),
        direction: opt(src, 1, 2, |s| match s.below(5) {
            0 => LefPinDirection::Input,
            1 => LefPinDirection::Output { tristate: false },
            2 => LefPinDirection::Output { tristate: true },
            3 => LefPinDirection::Inout,
            _ => LefPinDirection::FeedThru,
        }),
        use_: opt(src, 1, 2, |s| *s.pick(&[LefPinUse::Signal, LefPinUse::Analog, LefPinUse::Power, LefPinUse::Ground, LefPinUse::Clock])),
        shape: opt(src, 1, 4, |s| *s.pick(&[LefPinShape::Abutment, LefPinShape::Ring, LefPinShape::FeedThru])),
        antenna_model: opt(src, 1, 4, |s| *s.pick(&[LefAntennaModel::Oxide1, LefAntennaModel::Oxide2, LefAntennaModel::Oxide3, LefAntennaModel::Oxide4])),
        antenna_attrs: (0..na).map(|_| LefPinAntennaAttr { key: gen_antenna_key(src), val: gen_pos_dec(src), layer: opt(src, 1, 2, gen_name) }).collect(),
        taper_rule: opt(src, 1, 5, gen_name),
        supply_sensitivity: opt(src, 1, 5, gen_name),
        ground_sensitivity: opt(src, 1, 5, gen_name),
        must_join: opt(src, 1, 5, gen_name),
        net_expr: opt(src, 1, 5, gen_string_literal),
        properties: if o.properties { (0..src.weighted(&[4, 2, 1, 1])).map(|_| gen_property(src)).collect() } else { vec![] },
    }
}
pub fn gen_macro(src: &mut Src, o: &LefGenOpts, version_le_5p4: bool) -> LefMacro {
    // (now and then a list long enough to outgrow any small inline buffer: pins, obstruction blocks, macros)
    let npins = if src.prob(1, 60) { src.usize_in(17, 40) } else { src.usize_in(0, 3) };
    let nobs = if src.prob(1, 60) { src.usize_in(9, 36) } else { src.weighted(&[3, 2, 1]) };
    let class = opt(src, 2, 3, |s| match s.below(6) {
        0 => LefMacroClass::Cover { bump: s.bool() },
        1 => LefMacroClass::Ring,
        2 => LefMacroClass::Block { tp: opt(s, 1, 2, |s| *s.pick(&[LefBlockClassType::BlackBox, LefBlockClassType::Soft])) },
        3 => LefMacroClass::Pad { tp: opt(s, 1, 2, |s| *s.pick(&[LefPadClassType::Input, LefPadClassType::Output, LefPadClassType::Inout, LefPadClassType::Power, LefPadClassType::Spacer, LefPadClassType::AreaIo])) },
        4 => LefMacroClass::Core {
            tp: opt(s, 1, 2, |s| *s.pick(&[LefCoreClassType::FeedThru, LefCoreClassType::TieHigh, LefCoreClassType::TieLow, LefCoreClassType::Spacer, LefCoreClassType::AntennaCell, LefCoreClassType::WellTap])),
        },
        _ => LefMacroClass::EndCap {
            tp: *s.pick(&[LefEndCapClassType::Pre, LefEndCapClassType::Post, LefEndCapClassType::TopLeft, LefEndCapClassType::TopRight, LefEndCapClassType::BottomLeft, LefEndCapClassType::BottomRight]),
        },
    });
    LefMacro {
        name: gen_name(src),
        pins: (0..npins).map(|_| gen_pin(src, o)).collect(),
        obs: { let v = (0..nobs).map(|_| gen_layer_geoms(src)).collect(); repeat_layer_names(src, v) },
        class,
        foreign: opt(src, 1, 3, |s| {
            let pt = opt(s, 1, 2, gen_pt);
            let orient = if pt.is_some() { opt(s, 1, 2, |s| *s.pick(&[LefOrient::N, LefOrient::S, LefOrient::E, LefOrient::W, LefOrient::FN, LefOrient::FS, LefOrient::FE, LefOrient::FW])) } else { None };
            LefForeign { cell_name: gen_name(s), pt, orient }
        }),
        origin: opt(src, 1, 2, gen_pt),
        size: opt(src, 2, 3, |s| (gen_pos_dec(s), gen_pos_dec(s))),
        symmetry: opt(src, 1, 2, gen_symmetry),
        site: opt(src, 1, 3, gen_name),
        source: if version_le_5p4 { opt(src, 1, 2, |s| *s.pick(&[LefDefSource::Netlist, LefDefSource::Dist, LefDefSource::Timing, LefDefSource::User])) } else { None },
        eeq: opt(src, 1, 5, gen_name),
        fixed_mask: src.prob(1, 5),
        properties: if o.properties { (0..src.weighted(&[4, 2, 1, 1])).map(|_| gen_property(src)).collect() } else { vec![] },
        density: opt(src, 1, 5, |s| {
            let nl = s.usize_in(0, 2); // an empty `DENSITY END` block is legal and distinct from no block
            (0..nl)
                .map(|_| {
                    let nr = s.usize_in(0, 2);
                    LefDensityGeometries { layer_name: gen_name(s), geometries: (0..nr).map(|_| LefDensityRectangle { pt1: gen_pt(s), pt2: gen_pt(s), density_value: gen_pos_dec(s) }).collect() }
                })
                .collect()
        }),
    }
}
/// An antenna keyword, mostly upper-case, sometimes lower or mixed case: the keyword is matched
/// without regard to case and the spelling found is what the library value keeps
fn gen_antenna_key(src: &mut Src) -> String {
    let k = src.pick(ANTENNA_KEYS).to_string();
    match src.weighted(&[5, 1, 1]) {
        0 => k,
        1 => k.to_ascii_lowercase(),
        _ => k.chars().enumerate().map(|(i, c)| if i % 2 == 1 { c.to_ascii_lowercase() } else { c }).collect(),
    }
}
/// point lists sometimes end on their first point again (the list is data: it is kept as written)
fn maybe_closed(src: &mut Src, mut pts: Vec<LefPoint>) -> Vec<LefPoint> {
    if src.prob(1, 5) {
        pts.push(pts[0].clone());
    }
    pts
}
fn gen_via_shape(src: &mut Src) -> LefViaShape {
    if src.bool() {
        LefViaShape::Rect(gen_mask(src), gen_pt(src), gen_pt(src))
    } else {
        let n = if src.prob(1, 10) { src.usize_in(7, 20) } else { src.usize_in(3, 5) };
        let m = gen_mask(src);
        let pts = (0..n).map(|_| gen_pt(src)).collect();
        LefViaShape::Polygon(m, maybe_closed(src, pts))
    }
}
pub fn gen_via(src: &mut Src) -> LefViaDef {
    let data = if src.bool() {
        let nl = src.usize_in(0, 4);
        let mut layers: Vec<LefViaLayerGeometries> = vec![];
        for _ in 0..nl {
            let ns = src.usize_in(0, 3);
            // the same layer may be named again (one block per mask colour), straight away or later
            let layer_name = if !layers.is_empty() && src.prob(1, 3) { layers[src.index(layers.len())].layer_name.clone() } else { gen_name(src) };
            layers.push(LefViaLayerGeometries { layer_name, shapes: (0..ns).map(|_| gen_via_shape(src)).collect() });
        }
        LefViaDefData::Fixed(LefFixedViaDef { resistance_ohms: opt(src, 1, 3, gen_pos_dec), layers })
    } else {
        // every field distinct so that swaps are visible
        let mut k = 0i64;
        let mut d = |src: &mut Src| {
            k += 1;
            LefDecimal::new(src.i64_in(1, 90) * 100 + k, 2)
        };
        LefViaDefData::Generated(LefGeneratedViaDef {
            via_rule_name: gen_name(src),
            cut_size_x: d(src),
            cut_size_y: d(src),
            bot_metal_layer: gen_name(src),
            cut_layer: gen_name(src),
            top_metal_layer: gen_name(src),
            cut_spacing_x: d(src),
            cut_spacing_y: d(src),
            bot_enc_x: d(src),
            bot_enc_y: d(src),
            top_enc_x: d(src),
            top_enc_y: d(src),
            rowcol: if src.prob(1, 2) { Some(LefRowCol { rows: LefDecimal::new(src.i64_in(1, 5), 0), cols: LefDecimal::new(src.i64_in(6, 9), 0) }) } else { None },
            origin: opt(src, 1, 2, gen_pt),
            offset: if src.prob(1, 2) { Some(LefOffset { bot_x: d(src), bot_y: d(src), top_x: d(src), top_y: d(src) }) } else { None },
            pattern: None,
        })
    };
    LefViaDef { name: gen_name(src), default: src.bool(), data, properties: None }
}
fn gen_site(src: &mut Src) -> LefSite {
    LefSite { name: gen_name(src), class: *src.pick(&[LefSiteClass::Pad, LefSiteClass::Core]), size: (gen_pos_dec(src), gen_pos_dec(src)), symmetry: opt(src, 1, 2, gen_symmetry), row_pattern: None }
}
fn gen_propdef(src: &mut Src) -> LefPropertyDefinition {
    use LefPropertyDefinitionObjectType as T;
    let ot = *src.pick(&[T::Layer, T::Library, T::Macro, T::NonDefaultRule, T::Pin, T::Via, T::ViaRule]);
    let name = gen_prop_name(src);
    match src.below(3) {
        0 => LefPropertyDefinition::LefString(ot, name, opt(src, 1, 2, gen_string_literal)),
        k => {
            // (the bounds come in any order, and one time in five they are the same number: a one-value range)
            let range = opt(src, 1, 2, |s| {
                let begin = gen_dec(s);
                let end = if s.prob(1, 5) { begin } else { gen_dec(s) };
                LefPropertyRange { begin, end }
            });
            let value = opt(src, 1, 2, gen_dec);
            if k == 1 {
                LefPropertyDefinition::LefReal(ot, name, value, range)
            } else {
                LefPropertyDefinition::LefInteger(ot, name, value, range)
            }
        }
    }
}
fn gen_extension(src: &mut Src) -> LefExtension {
    // now and then a block of several hundred tokens (more than 2 kB)
    let n = if src.prob(1, 40) { src.usize_in(300, 700) } else { src.usize_in(0, 6) };
    let mut data = String::new();
    for _ in 0..n {
        let t = match src.below(4) {
            0 => gen_name(src),
            1 => spell_plain(&gen_dec(src)),
            2 => ";".to_string(),
            _ => gen_string_literal(src),
        };
        data.push_str(&t);
        data.push(' ');
    }
    LefExtension { name: gen_string_literal(src), data }
}
pub const VERSIONS: &[(i64, u32)] = &[(53, 1), (54, 1), (55, 1), (56, 1), (57, 1), (58, 1)];

pub fn gen_lef(src: &mut Src, o: &LefGenOpts) -> LefLibrary {
    let version = opt(src, 5, 6, |s| {
        let v = *s.pick(VERSIONS);
        LefDecimal::new(v.0, v.1)
    });
    let le54 = version.map(|v| v <= LefDecimal::new(54, 1)).unwrap_or(false);
    let nm = if o.max_macros >= 3 && src.prob(1, 80) { src.usize_in(9, 34) } else { src.usize_in(0, o.max_macros) };
    let ns = if o.sites { src.weighted(&[3, 2, 1]) } else { 0 };
    let nv = src.weighted(&[3, 2, 1]);
    let nx = src.weighted(&[5, 1, 1]);
    let npd = src.weighted(&[4, 1, 1, 1]);
    const DBU: &[u32] = &[100, 200, 400, 800, 1000, 2000, 4000, 8000, 10_000, 20_000];
    LefLibrary {
        macros: (0..nm).map(|_| gen_macro(src, o, le54)).collect(),
        sites: (0..ns).map(|_| gen_site(src)).collect(),
        vias: (0..nv).map(|_| gen_via(src)).collect(),
        version,
        names_case_sensitive: if le54 { opt(src, 1, 2, |s| *s.pick(&[LefOnOff::On, LefOnOff::Off])) } else { None },
        no_wire_extension_at_pin: opt(src, 1, 4, |s| *s.pick(&[LefOnOff::On, LefOnOff::Off])),
        bus_bit_chars: opt(src, 1, 3, |s| *s.pick(&[('[', ']'), ('<', '>'), ('(', ')'), ('{', '}'), ('\\', '/'), ('«', '»'), ('\'', '`'), ('#', ';')])),
        divider_char: opt(src, 1, 3, |s| *s.pick(&['/', '|', '.', ':', '\\', '·', '\'', '#', ';'])),
        units: opt(src, 1, 2, |s| LefUnits {
            database_microns: opt(s, 2, 3, |s| LefDbuPerMicron(*s.pick(DBU))),
            time_ns: opt(s, 1, 4, gen_pos_dec),
            capacitance_pf: opt(s, 1, 4, gen_pos_dec),
            resistance_ohms: opt(s, 1, 4, gen_pos_dec),
            power_mw: opt(s, 1, 4, gen_pos_dec),
            current_ma: opt(s, 1, 4, gen_pos_dec),
            voltage_volts: opt(s, 1, 4, gen_pos_dec),
            frequency_mhz: opt(s, 1, 4, gen_pos_dec),
        }),
        fixed_mask: src.prob(1, 5),
        clearance_measure: opt(src, 1, 5, |s| *s.pick(&[LefClearanceStyle::MaxXY, LefClearanceStyle::Euclidean])),
        extensions: (0..nx).map(|_| gen_extension(src)).collect(),
        manufacturing_grid: opt(src, 1, 5, gen_pos_dec),
        use_min_spacing: opt(src, 1, 5, |s| *s.pick(&[LefOnOff::On, LefOnOff::Off])),
        property_definitions: (0..npd).map(|_| gen_propdef(src)).collect(),
        layers: None,
        max_via_stack: None,
        via_rules: None,
        via_rule_generators: None,
        non_default_rules: None,
    }
}

// ------------------------------------------------------------------------------------------
// number spelling
// ------------------------------------------------------------------------------------------
/// canonical spelling: digits with exactly `scale` fractional digits
pub fn spell_plain(d: &LefDecimal) -> String {
    let m = d.mantissa();
    let scale = d.scale() as usize;
    let neg = m < 0;
    let mut digits = m.unsigned_abs().to_string();
    if scale > 0 {
        while digits.len() <= scale {
            digits.insert(0, '0');
        }
        let cut = digits.len() - scale;
        digits.insert(cut, '.');
    }
    if neg {
        format!("-{}", digits)
    } else {
        digits
    }
}
/// alternative spellings of the same value
pub fn spell(d: &LefDecimal, src: &mut Src, kinds: &mut u32) -> String {
    let mut s = spell_plain(d);
    match src.weighted(&[4, 2, 2, 2]) {
        0 => {}
        1 => {
            // trailing zeros
            if !s.contains('.') {
                s.push('.');
            }
            for _ in 0..src.usize_in(1, 3) {
                s.push('0');
            }
            *kinds |= 1;
        }
        2 => {
            // leading dot: drop a leading zero integer part
            if let Some(rest) = s.strip_prefix("0.") {
                s = format!(".{}", rest);
                *kinds |= 2;
            } else if let Some(rest) = s.strip_prefix("-0.") {
                s = format!("-.{}", rest);
                *kinds |= 2;
            }
        }
        _ => {
            // redundant ".0" on integers
            if !s.contains('.') {
                s.push_str(".0");
                *kinds |= 4;
            }
        }
    }
    s
}

// ------------------------------------------------------------------------------------------
// renderer
// ------------------------------------------------------------------------------------------
#[derive(Clone, Copy)]
pub struct RenderOpts {
    /// lexical variation on/off (off = plain single-space rendering, upper-case keywords)
    pub vary: bool,
    pub nonascii_comments: bool,
    pub end_library: bool,
    pub permute: bool,
}
pub struct Renderer<'a, 'b> {
    pub out: String,
    src: &'a mut Src<'b>,
    o: RenderOpts,
    /// bit set of the kinds of lexical variation actually applied
    pub kinds: u32,
    in_ext: bool,
}
pub const K_TRAILING_ZEROS: u32 = 1;
pub const K_LEADING_DOT: u32 = 2;
pub const K_REDUNDANT_POINT: u32 = 4;
pub const K_CASE: u32 = 8;
pub const K_COMMENT: u32 = 16;
pub const K_NONASCII: u32 = 32;
pub const K_WHITESPACE: u32 = 64;
pub const K_PERMUTED: u32 = 128;

impl<'a, 'b> Renderer<'a, 'b> {
    pub fn new(src: &'a mut Src<'b>, o: RenderOpts) -> Self {
        Renderer { out: String::new(), src, o, kinds: 0, in_ext: false }
    }
    fn sep(&mut self) {
        if !self.o.vary || self.in_ext {
            self.out.push(' ');
            return;
        }
        match self.src.weighted(&[10, 2, 2, 3, 2, 1]) {
            0 => self.out.push(' '),
            1 => {
                self.out.push_str("   ");
                self.kinds |= K_WHITESPACE;
            }
            2 => {
                self.out.push('\t');
                self.kinds |= K_WHITESPACE;
            }
            3 => {
                // line ends: LF, CR LF (files written on other systems), form feed
                self.out.push_str(*self.src.pick(&["\n  ", "\n", "\r\n", "\r\n\t", " \x0c\n", "\r", "\r"]));
                self.kinds |= K_WHITESPACE;
            }
            4 => {
                self.out.push_str(" # a comment ; END LIBRARY \"q\n");
                self.kinds |= K_COMMENT;
            }
            _ => {
                if self.o.nonascii_comments && self.src.bool() {
                    // (the comment text may start right after the `#`, with a character of any width)
                    self.out.push_str(*self.src.pick(&[" # größe 中文 😀 é\n", " #中文 comment\n", " #😀\n", " #é\n #Ω next\n", " #→ note ←\n"]));
                    self.kinds |= K_COMMENT | K_NONASCII;
                } else {
                    // short comments: one character, empty, blank, two in a row
                    self.out.push_str(*self.src.pick(&[" #x\n", " #\n", " # \n", " #\n #\n", " # a\n  # b\n"]));
                    self.kinds |= K_COMMENT;
                }
            }
        }
    }
    /// literal token (names, strings, punctuation)
    pub fn t(&mut self, s: &str) {
        self.out.push_str(s);
        self.sep();
    }
    /// keyword or enum word: case-insensitive, rendered in random case
    pub fn k(&mut self, s: &str) {
        if !self.o.vary {
            return self.t(s);
        }
        let w = match self.src.weighted(&[5, 2, 2]) {
            0 => s.to_string(),
            1 => {
                self.kinds |= K_CASE;
                s.to_ascii_lowercase()
            }
            _ => {
                self.kinds |= K_CASE;
                s.chars().enumerate().map(|(i, c)| if i % 2 == 0 { c.to_ascii_lowercase() } else { c }).collect()
            }
        };
        self.t(&w);
    }
    pub fn n(&mut self, d: &LefDecimal) {
        let s = if self.o.vary { spell(d, self.src, &mut self.kinds) } else { spell_plain(d) };
        self.t(&s);
    }
    fn pt(&mut self, p: &LefPoint) {
        self.n(&p.x);
        self.n(&p.y);
    }
    fn semi(&mut self) {
        self.t(";");
    }
    /// run the closures in a random interleaving that preserves the order inside each group
    fn interleave(&mut self, groups: Vec<Vec<Box<dyn FnOnce(&mut Self) + '_>>>) {
        let mut groups: Vec<std::collections::VecDeque<Box<dyn FnOnce(&mut Self) + '_>>> = groups.into_iter().map(|g| g.into_iter().collect()).filter(|g: &std::collections::VecDeque<_>| !g.is_empty()).collect();
        let mut first = true;
        while !groups.is_empty() {
            let i = if self.o.permute { self.src.index(groups.len()) } else { 0 };
            if i != 0 || (!first && self.o.permute) {
                self.kinds |= K_PERMUTED;
            }
            first = false;
            let f = groups[i].pop_front().unwrap();
            f(self);
            if groups[i].is_empty() {
                groups.remove(i);
            }
        }
    }
}

fn mask_tokens(r: &mut Renderer, m: &Option<LefMask>) {
    if let Some(m) = m {
        r.k("MASK");
        r.n(&m.mask);
    }
}
fn render_shape(r: &mut Renderer, s: &LefShape, pat: Option<&LefStepPattern>) {
    match s {
        LefShape::Rect(m, a, b) => {
            r.k("RECT");
            mask_tokens(r, m);
            if pat.is_some() {
                r.k("ITERATE");
            }
            r.pt(a);
            r.pt(b);
        }
        LefShape::Polygon(m, pts) => {
            r.k("POLYGON");
            mask_tokens(r, m);
            if pat.is_some() {
                r.k("ITERATE");
            }
            for p in pts {
                r.pt(p);
            }
        }
        LefShape::Path(m, pts) => {
            r.k("PATH");
            mask_tokens(r, m);
            if pat.is_some() {
                r.k("ITERATE");
            }
            for p in pts {
                r.pt(p);
            }
        }
    }
    if let Some(p) = pat {
        r.k("DO");
        r.n(&p.numx);
        r.k("BY");
        r.n(&p.numy);
        r.k("STEP");
        r.n(&p.spacex);
        r.n(&p.spacey);
    }
    r.semi();
}
fn render_layer_geoms(r: &mut Renderer, l: &LefLayerGeometries) {
    r.k("LAYER");
    r.t(&l.layer_name);
    if l.except_pg_net == Some(true) {
        r.k("EXCEPTPGNET");
    }
    match &l.spacing {
        Some(LefLayerSpacing::Spacing(d)) => {
            r.k("SPACING");
            r.n(d);
        }
        Some(LefLayerSpacing::DesignRuleWidth(d)) => {
            r.k("DESIGNRULEWIDTH");
            r.n(d);
        }
        None => {}
    }
    r.semi();
    if let Some(w) = &l.width {
        r.k("WIDTH");
        r.n(w);
        r.semi();
    }
    let geoms: Vec<Box<dyn FnOnce(&mut Renderer)>> = l
        .geometries
        .iter()
        .map(|g| {
            Box::new(move |r: &mut Renderer| match g {
                LefGeometry::Shape(s) => render_shape(r, s, None),
                LefGeometry::Iterate { shape, pattern } => render_shape(r, shape, Some(pattern)),
            }) as Box<dyn FnOnce(&mut Renderer)>
        })
        .collect();
    let vias: Vec<Box<dyn FnOnce(&mut Renderer)>> = l
        .vias
        .iter()
        .map(|v| {
            Box::new(move |r: &mut Renderer| {
                r.k("VIA");
                r.pt(&v.pt);
                r.t(&v.via_name);
                r.semi();
            }) as Box<dyn FnOnce(&mut Renderer)>
        })
        .collect();
    r.interleave(vec![geoms, vias]);
}
fn render_symmetry(r: &mut Renderer, v: &[LefSymmetry]) {
    r.k("SYMMETRY");
    for s in v {
        r.k(match s {
            LefSymmetry::X => "X",
            LefSymmetry::Y => "Y",
            LefSymmetry::R90 => "R90",
        });
    }
    r.semi();
}
/// PROPERTY statements: the list is split into 1..n statements with one or more pairs each
fn property_statements<'x>(props: &'x [LefProperty], src: &mut Src) -> Vec<Box<dyn FnOnce(&mut Renderer) + 'x>> {
    let mut out: Vec<Box<dyn FnOnce(&mut Renderer) + 'x>> = vec![];
    let mut i = 0;
    while i < props.len() {
        let n = 1 + src.index(props.len() - i);
        let chunk = &props[i..i + n];
        out.push(Box::new(move |r: &mut Renderer| {
            r.k("PROPERTY");
            for p in chunk {
                r.t(&p.name);
                r.t(&p.value);
            }
            r.semi();
        }));
        i += n;
    }
    out
}
fn enum_word<T: std::fmt::Display>(t: &T) -> String {
    t.to_string()
}
fn render_pin(r: &mut Renderer, p: &LefPin) {
    r.k("PIN");
    r.t(&p.name);
    let mut singles: Vec<Vec<Box<dyn FnOnce(&mut Renderer) + '_>>> = vec![];
    if let Some(d) = &p.direction {
        singles.push(vec![Box::new(move |r: &mut Renderer| {
            r.k("DIRECTION");
            match d {
                LefPinDirection::Input => r.k("INPUT"),
                LefPinDirection::Inout => r.k("INOUT"),
                LefPinDirection::FeedThru => r.k("FEEDTHRU"),
                LefPinDirection::Output { tristate } => {
                    r.k("OUTPUT");
                    if *tristate {
                        r.k("TRISTATE");
                    }
                }
            }
            r.semi();
        })]);
    }
    if let Some(u) = &p.use_ {
        let w = enum_word(u);
        singles.push(vec![Box::new(move |r: &mut Renderer| {
            r.k("USE");
            r.k(&w);
            r.semi();
        })]);
    }
    if let Some(u) = &p.shape {
        let w = enum_word(u);
        singles.push(vec![Box::new(move |r: &mut Renderer| {
            r.k("SHAPE");
            r.k(&w);
            r.semi();
        })]);
    }
    if let Some(u) = &p.antenna_model {
        let w = enum_word(u);
        singles.push(vec![Box::new(move |r: &mut Renderer| {
            r.k("ANTENNAMODEL");
            r.k(&w);
            r.semi();
        })]);
    }
    let attrs: Vec<Box<dyn FnOnce(&mut Renderer) + '_>> = p
        .antenna_attrs
        .iter()
        .map(|a| {
            Box::new(move |r: &mut Renderer| {
                // the key is kept as written: spell it exactly as the value has it
                r.t(&a.key);
                r.n(&a.val);
                if let Some(l) = &a.layer {
                    r.k("LAYER");
                    r.t(l);
                }
                r.semi();
            }) as Box<dyn FnOnce(&mut Renderer) + '_>
        })
        .collect();
    singles.push(attrs);
    for (kw, v) in [("TAPERRULE", &p.taper_rule), ("SUPPLYSENSITIVITY", &p.supply_sensitivity), ("GROUNDSENSITIVITY", &p.ground_sensitivity), ("MUSTJOIN", &p.must_join), ("NETEXPR", &p.net_expr)] {
        if let Some(v) = v {
            singles.push(vec![Box::new(move |r: &mut Renderer| {
                r.k(kw);
                r.t(v);
                r.semi();
            })]);
        }
    }
    let props = property_statements(&p.properties, r.src);
    singles.push(props);
    let ports: Vec<Box<dyn FnOnce(&mut Renderer) + '_>> = p
        .ports
        .iter()
        .map(|port| {
            Box::new(move |r: &mut Renderer| {
                r.k("PORT");
                if let Some(c) = &port.class {
                    r.k("CLASS");
                    r.k(&enum_word(c));
                    r.semi();
                }
                for l in &port.layers {
                    render_layer_geoms(r, l);
                }
                r.k("END");
            }) as Box<dyn FnOnce(&mut Renderer) + '_>
        })
        .collect();
    singles.push(ports);
    r.interleave(singles);
    r.k("END");
    r.t(&p.name);
}
fn render_class(r: &mut Renderer, c: &LefMacroClass) {
    r.k("CLASS");
    match c {
        LefMacroClass::Cover { bump } => {
            r.k("COVER");
            if *bump {
                r.k("BUMP");
            }
        }
        LefMacroClass::Ring => r.k("RING"),
        LefMacroClass::Block { tp } => {
            r.k("BLOCK");
            if let Some(t) = tp {
                r.k(&enum_word(t));
            }
        }
        LefMacroClass::Pad { tp } => {
            r.k("PAD");
            if let Some(t) = tp {
                r.k(&enum_word(t));
            }
        }
        LefMacroClass::Core { tp } => {
            r.k("CORE");
            if let Some(t) = tp {
                r.k(&enum_word(t));
            }
        }
        LefMacroClass::EndCap { tp } => {
            r.k("ENDCAP");
            r.k(&enum_word(tp));
        }
    }
    r.semi();
}
pub fn render_macro(r: &mut Renderer, m: &LefMacro) {
    r.k("MACRO");
    r.t(&m.name);
    let mut g: Vec<Vec<Box<dyn FnOnce(&mut Renderer) + '_>>> = vec![];
    if let Some(c) = &m.class {
        g.push(vec![Box::new(move |r: &mut Renderer| render_class(r, c))]);
    }
    if m.fixed_mask {
        g.push(vec![Box::new(|r: &mut Renderer| {
            r.k("FIXEDMASK");
            r.semi();
        })]);
    }
    if let Some(f) = &m.foreign {
        g.push(vec![Box::new(move |r: &mut Renderer| {
            r.k("FOREIGN");
            r.t(&f.cell_name);
            if let Some(p) = &f.pt {
                r.pt(p);
            }
            if let Some(o) = &f.orient {
                r.k(&enum_word(o));
            }
            r.semi();
        })]);
    }
    if let Some(p) = &m.origin {
        g.push(vec![Box::new(move |r: &mut Renderer| {
            r.k("ORIGIN");
            r.pt(p);
            r.semi();
        })]);
    }
    if let Some(s) = &m.source {
        let w = enum_word(s);
        g.push(vec![Box::new(move |r: &mut Renderer| {
            r.k("SOURCE");
            r.k(&w);
            r.semi();
        })]);
    }
    if let Some(e) = &m.eeq {
        g.push(vec![Box::new(move |r: &mut Renderer| {
            r.k("EEQ");
            r.t(e);
            r.semi();
        })]);
    }
    if let Some((w, h)) = &m.size {
        g.push(vec![Box::new(move |r: &mut Renderer| {
            r.k("SIZE");
            r.n(w);
            r.k("BY");
            r.n(h);
            r.semi();
        })]);
    }
    if let Some(s) = &m.symmetry {
        g.push(vec![Box::new(move |r: &mut Renderer| render_symmetry(r, s))]);
    }
    if let Some(s) = &m.site {
        g.push(vec![Box::new(move |r: &mut Renderer| {
            r.k("SITE");
            r.t(s);
            r.semi();
        })]);
    }
    g.push(m.pins.iter().map(|p| Box::new(move |r: &mut Renderer| render_pin(r, p)) as Box<dyn FnOnce(&mut Renderer) + '_>).collect());
    if !m.obs.is_empty() {
        g.push(vec![Box::new(move |r: &mut Renderer| {
            r.k("OBS");
            for l in &m.obs {
                render_layer_geoms(r, l);
            }
            r.k("END");
        })]);
    }
    let props = property_statements(&m.properties, r.src);
    g.push(props);
    if let Some(d) = &m.density {
        g.push(vec![Box::new(move |r: &mut Renderer| {
            r.k("DENSITY");
            for l in d {
                r.k("LAYER");
                r.t(&l.layer_name);
                r.semi();
                for q in &l.geometries {
                    r.k("RECT");
                    r.pt(&q.pt1);
                    r.pt(&q.pt2);
                    r.n(&q.density_value);
                    r.semi();
                }
            }
            r.k("END");
        })]);
    }
    r.interleave(g);
    r.k("END");
    r.t(&m.name);
}
fn render_via(r: &mut Renderer, v: &LefViaDef) {
    r.k("VIA");
    r.t(&v.name);
    if v.default {
        r.k("DEFAULT");
    }
    match &v.data {
        LefViaDefData::Fixed(f) => {
            if let Some(res) = &f.resistance_ohms {
                r.k("RESISTANCE");
                r.n(res);
                r.semi();
            }
            for l in &f.layers {
                r.k("LAYER");
                r.t(&l.layer_name);
                r.semi();
                for s in &l.shapes {
                    match s {
                        LefViaShape::Rect(m, a, b) => {
                            r.k("RECT");
                            mask_tokens(r, m);
                            r.pt(a);
                            r.pt(b);
                            r.semi();
                        }
                        LefViaShape::Polygon(m, pts) => {
                            r.k("POLYGON");
                            mask_tokens(r, m);
                            for p in pts {
                                r.pt(p);
                            }
                            r.semi();
                        }
                    }
                }
            }
        }
        LefViaDefData::Generated(g) => {
            r.k("VIARULE");
            r.t(&g.via_rule_name);
            r.semi();
            r.k("CUTSIZE");
            r.n(&g.cut_size_x);
            r.n(&g.cut_size_y);
            r.semi();
            r.k("LAYERS");
            r.t(&g.bot_metal_layer);
            r.t(&g.cut_layer);
            r.t(&g.top_metal_layer);
            r.semi();
            r.k("CUTSPACING");
            r.n(&g.cut_spacing_x);
            r.n(&g.cut_spacing_y);
            r.semi();
            r.k("ENCLOSURE");
            r.n(&g.bot_enc_x);
            r.n(&g.bot_enc_y);
            r.n(&g.top_enc_x);
            r.n(&g.top_enc_y);
            r.semi();
            if let Some(rc) = &g.rowcol {
                r.k("ROWCOL");
                r.n(&rc.rows);
                r.n(&rc.cols);
                r.semi();
            }
            if let Some(p) = &g.origin {
                r.k("ORIGIN");
                r.pt(p);
                r.semi();
            }
            if let Some(o) = &g.offset {
                r.k("OFFSET");
                r.n(&o.bot_x);
                r.n(&o.bot_y);
                r.n(&o.top_x);
                r.n(&o.top_y);
                r.semi();
            }
        }
    }
    r.k("END");
    r.t(&v.name);
}
fn render_site(r: &mut Renderer, s: &LefSite) {
    r.k("SITE");
    r.t(&s.name);
    let mut g: Vec<Vec<Box<dyn FnOnce(&mut Renderer) + '_>>> = vec![];
    g.push(vec![Box::new(move |r: &mut Renderer| {
        r.k("CLASS");
        r.k(&enum_word(&s.class));
        r.semi();
    })]);
    if let Some(sy) = &s.symmetry {
        g.push(vec![Box::new(move |r: &mut Renderer| render_symmetry(r, sy))]);
    }
    g.push(vec![Box::new(move |r: &mut Renderer| {
        r.k("SIZE");
        r.n(&s.size.0);
        r.k("BY");
        r.n(&s.size.1);
        r.semi();
    })]);
    r.interleave(g);
    r.k("END");
    r.t(&s.name);
}
fn render_units(r: &mut Renderer, u: &LefUnits) {
    r.k("UNITS");
    let mut g: Vec<Vec<Box<dyn FnOnce(&mut Renderer) + '_>>> = vec![];
    if let Some(d) = &u.database_microns {
        g.push(vec![Box::new(move |r: &mut Renderer| {
            r.k("DATABASE");
            r.k("MICRONS");
            r.n(&LefDecimal::new(d.0 as i64, 0));
            r.semi();
        })]);
    }
    for (a, b, v) in [
        ("TIME", "NANOSECONDS", &u.time_ns),
        ("CAPACITANCE", "PICOFARADS", &u.capacitance_pf),
        ("RESISTANCE", "OHMS", &u.resistance_ohms),
        ("POWER", "MILLIWATTS", &u.power_mw),
        ("CURRENT", "MILLIAMPS", &u.current_ma),
        ("VOLTAGE", "VOLTS", &u.voltage_volts),
        ("FREQUENCY", "MEGAHERTZ", &u.frequency_mhz),
    ] {
        if let Some(v) = v {
            g.push(vec![Box::new(move |r: &mut Renderer| {
                r.k(a);
                r.k(b);
                r.n(v);
                r.semi();
            })]);
        }
    }
    r.interleave(g);
    r.k("END");
    r.k("UNITS");
}
fn render_propdefs(r: &mut Renderer, defs: &[LefPropertyDefinition]) {
    r.k("PROPERTYDEFINITIONS");
    for d in defs {
        let (ot, name, kw) = match d {
            LefPropertyDefinition::LefString(o, n, _) => (o, n, "STRING"),
            LefPropertyDefinition::LefReal(o, n, _, _) => (o, n, "REAL"),
            LefPropertyDefinition::LefInteger(o, n, _, _) => (o, n, "INTEGER"),
        };
        r.k(&enum_word(ot));
        r.t(name);
        r.k(kw);
        match d {
            LefPropertyDefinition::LefString(_, _, v) => {
                if let Some(v) = v {
                    r.t(v);
                }
            }
            LefPropertyDefinition::LefReal(_, _, v, range) | LefPropertyDefinition::LefInteger(_, _, v, range) => {
                if let Some(rg) = range {
                    r.k("RANGE");
                    r.n(&rg.begin);
                    r.n(&rg.end);
                }
                if let Some(v) = v {
                    r.n(v);
                }
            }
        }
        r.semi();
    }
    r.k("END");
    r.k("PROPERTYDEFINITIONS");
}
pub fn render_lib(r: &mut Renderer, lib: &LefLibrary) {
    // VERSION comes first: the statements it gates may only be judged once it is known
    if let Some(v) = &lib.version {
        r.k("VERSION");
        r.n(v);
        r.semi();
    }
    let mut g: Vec<Vec<Box<dyn FnOnce(&mut Renderer) + '_>>> = vec![];
    if let Some(v) = &lib.names_case_sensitive {
        let w = enum_word(v);
        g.push(vec![Box::new(move |r: &mut Renderer| {
            r.k("NAMESCASESENSITIVE");
            r.k(&w);
            r.semi();
        })]);
    }
    if let Some(v) = &lib.no_wire_extension_at_pin {
        let w = enum_word(v);
        g.push(vec![Box::new(move |r: &mut Renderer| {
            r.k("NOWIREEXTENSIONATPIN");
            r.k(&w);
            r.semi();
        })]);
    }
    if let Some((a, b)) = &lib.bus_bit_chars {
        let s = format!("\"{}{}\"", a, b);
        g.push(vec![Box::new(move |r: &mut Renderer| {
            r.k("BUSBITCHARS");
            r.t(&s);
            r.semi();
        })]);
    }
    if let Some(c) = &lib.divider_char {
        let s = format!("\"{}\"", c);
        g.push(vec![Box::new(move |r: &mut Renderer| {
            r.k("DIVIDERCHAR");
            r.t(&s);
            r.semi();
        })]);
    }
    if let Some(u) = &lib.units {
        g.push(vec![Box::new(move |r: &mut Renderer| render_units(r, u))]);
    }
    if let Some(v) = &lib.manufacturing_grid {
        g.push(vec![Box::new(move |r: &mut Renderer| {
            r.k("MANUFACTURINGGRID");
            r.n(v);
            r.semi();
        })]);
    }
    if let Some(v) = &lib.use_min_spacing {
        let w = enum_word(v);
        g.push(vec![Box::new(move |r: &mut Renderer| {
            r.k("USEMINSPACING");
            r.k("OBS");
            r.k(&w);
            r.semi();
        })]);
    }
    if let Some(v) = &lib.clearance_measure {
        let w = enum_word(v);
        g.push(vec![Box::new(move |r: &mut Renderer| {
            r.k("CLEARANCEMEASURE");
            r.k(&w);
            r.semi();
        })]);
    }
    if !lib.property_definitions.is_empty() {
        // one block, or two consecutive blocks
        let cut = r.src.index(lib.property_definitions.len() + 1);
        let (a, b) = lib.property_definitions.split_at(cut);
        let mut blocks: Vec<Box<dyn FnOnce(&mut Renderer) + '_>> = vec![];
        if !a.is_empty() {
            blocks.push(Box::new(move |r: &mut Renderer| render_propdefs(r, a)));
        }
        if !b.is_empty() {
            blocks.push(Box::new(move |r: &mut Renderer| render_propdefs(r, b)));
        }
        g.push(blocks);
    }
    if lib.fixed_mask {
        g.push(vec![Box::new(|r: &mut Renderer| {
            r.k("FIXEDMASK");
            r.semi();
        })]);
    }
    g.push(lib.vias.iter().map(|v| Box::new(move |r: &mut Renderer| render_via(r, v)) as Box<dyn FnOnce(&mut Renderer) + '_>).collect());
    g.push(lib.sites.iter().map(|v| Box::new(move |r: &mut Renderer| render_site(r, v)) as Box<dyn FnOnce(&mut Renderer) + '_>).collect());
    g.push(lib.macros.iter().map(|v| Box::new(move |r: &mut Renderer| render_macro(r, v)) as Box<dyn FnOnce(&mut Renderer) + '_>).collect());
    g.push(
        lib.extensions
            .iter()
            .map(|x| {
                Box::new(move |r: &mut Renderer| {
                    r.k("BEGINEXT");
                    r.in_ext = true;
                    r.t(&x.name);
                    // the extension body is kept verbatim (tokens separated by single blanks)
                    r.out.push_str(&x.data);
                    r.in_ext = false;
                    r.k("ENDEXT");
                }) as Box<dyn FnOnce(&mut Renderer) + '_>
            })
            .collect(),
    );
    r.interleave(g);
    if r.o.end_library {
        r.k("END");
        r.k("LIBRARY");
    }
}
/// Render a library to LEF text. Returns (text, bit set of lexical variation kinds applied).
pub fn render(lib: &LefLibrary, src: &mut Src, o: RenderOpts) -> (String, u32) {
    let mut r = Renderer::new(src, o);
    render_lib(&mut r, lib);
    (r.out, r.kinds)
}
