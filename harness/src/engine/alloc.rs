//! Counting allocator: bytes requested per thread, for the deterministic allocation-scaling
//! sub-checks of C10/C11 ("time proportional to the input" approximated by allocation volume).
use std::alloc::{GlobalAlloc, Layout, System};
use std::cell::Cell;

pub struct Counting;
thread_local! {
    static BYTES: Cell<u64> = const { Cell::new(0) };
    static CALLS: Cell<u64> = const { Cell::new(0) };
}
unsafe impl GlobalAlloc for Counting {
    unsafe fn alloc(&self, l: Layout) -> *mut u8 {
        let _ = BYTES.try_with(|b| b.set(b.get().wrapping_add(l.size() as u64)));
        let _ = CALLS.try_with(|b| b.set(b.get().wrapping_add(1)));
        System.alloc(l)
    }
    unsafe fn dealloc(&self, p: *mut u8, l: Layout) {
        System.dealloc(p, l)
    }
    unsafe fn alloc_zeroed(&self, l: Layout) -> *mut u8 {
        let _ = BYTES.try_with(|b| b.set(b.get().wrapping_add(l.size() as u64)));
        let _ = CALLS.try_with(|b| b.set(b.get().wrapping_add(1)));
        System.alloc_zeroed(l)
    }
    unsafe fn realloc(&self, p: *mut u8, l: Layout, n: usize) -> *mut u8 {
        let _ = BYTES.try_with(|b| b.set(b.get().wrapping_add(n as u64)));
        let _ = CALLS.try_with(|b| b.set(b.get().wrapping_add(1)));
        System.realloc(p, l, n)
    }
}
/// (bytes requested, allocation calls) by this thread while running `f`
pub fn measure<T>(f: impl FnOnce() -> T) -> (T, u64, u64) {
    let b0 = BYTES.with(|b| b.get());
    let c0 = CALLS.with(|b| b.get());
    let r = f();
    (r, BYTES.with(|b| b.get()).wrapping_sub(b0), CALLS.with(|b| b.get()).wrapping_sub(c0))
}
