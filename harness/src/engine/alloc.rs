//! Counting allocator: bytes requested per thread, for the deterministic allocation-scaling
//! sub-checks of C10/C11 ("time proportional to the input" approximated by allocation volume).
use std::alloc::{GlobalAlloc, Layout, System};
use std::cell::Cell;

pub struct Counting;
thread_local! {
    static BYTES: Cell<u64> = const { Cell::new(0) };
    static CALLS: Cell<u64> = const { Cell::new(0) };
}
unsafe impl GlobalAlloc for Counting {
    unsafe fn alloc(&self, l: Layout) -> *mut u8 {
        let _ = BYTES.try_with(|b| b.set(b.get().wrapping_add(l.size() as u64)));
        let _ = CALLS.try_with(|b| b.set(b.get().wrapping_add(1)));
        System.alloc(l)
    }
    unsafe fn dealloc(&self, p: *mut u8, l: Layout) {
        System.dealloc(p, l)
    }
    unsafe fn alloc_zeroed(&self, l: Layout) -> *mut u8 {
        let _ = BYTES.try_with(|b| b.set(b.get().wrapping_add(l.size() as u64)));
        let _ = CALLS.try_with(|b| b.set(b.get().wrapping_add(1)));
        System.alloc_zeroed(l)
    }
    unsafe fn realloc(&self, p: *mut u8, l: Layout, n: usize) -> *mut u8 {
        let _ = BYTES.try_with(|b| b.set(b.get().wrapping_add(n as u64)));
        let _ = CALLS.try_with(|b| b.set(b.get().wrapping_add(1)));
        System.realloc(p, l, n)
    }
}
/// (bytes requested, allocation calls) by this thread while running `f`
pub fn measure<T>(f: impl FnOnce() -> T) -> (T, u64, u64) {
    let b0 = BYTES.with(|b| b.get());
    let c0 = CALLS.with(|b| b.get());
    let r = f();
    (r, BYTES.with(|b| b.get()).wrapping_sub(b0), CALLS.with(|b| b.get()).wrapping_sub(c0))
}

/// CPU time consumed by the calling thread while running `f` (CLOCK_THREAD_CPUTIME_ID): unaffected by
/// what other threads and processes do, apart from cache and frequency effects.
pub fn thread_cpu<T>(f: impl FnOnce() -> T) -> (T, f64) {
    fn now() -> f64 {
        let mut ts = libc::timespec { tv_sec: 0, tv_nsec: 0 };
        unsafe { libc::clock_gettime(libc::CLOCK_THREAD_CPUTIME_ID, &mut ts) };
        ts.tv_sec as f64 + ts.tv_nsec as f64 * 1e-9
    }
    let t0 = now();
    let r = f();
    (r, now() - t0)
}
/// Growth check: CPU time of `f` on an input of size n (best of five) and on one SIXTEEN times as large (best
/// of three). Linear work gives a ratio near 16 (up to about 30 when the large input falls out of the caches
/// on a loaded machine), quadratic work 256; more than 64 (plus 50 ms of slack) is suspicious. A suspicious
/// measurement is repeated from scratch, up to three times in all: only if every attempt is over the limit
/// is the growth reported (CPU time per thread is insensitive to scheduling, but not to cache and memory
/// contention from other processes; a defect in the code is there every time).
pub fn grows_badly(mut f: impl FnMut(bool) -> bool) -> Result<(f64, f64), String> {
    let mut last = (0.0, 0.0);
    for _attempt in 0..3 {
        let mut best = [f64::MAX, f64::MAX];
        for round in 0..5 {
            for (k, big) in [false, true].iter().enumerate() {
                if *big && round >= 3 {
                    continue;
                }
                let (ok, t) = thread_cpu(|| f(*big));
                if !ok {
                    return Err("scaling input rejected".into());
                }
                best[k] = best[k].min(t);
            }
        }
        last = (best[0], best[1]);
        if best[1] <= 64.0 * best[0] + 0.050 {
            return Ok(last);
        }
    }
    Err(format!("{:.1} ms of CPU time for the input, {:.1} ms for one sixteen times as long (three measurements, each over 64-fold)", last.0 * 1e3, last.1 * 1e3))
}
