//! Child-process isolation for cases that may abort the process (stack overflow) or spin.
//!
//! The parent writes a batch of cases (choice sequences) to a file and re-executes the harness
//! binary as `harness --child <prop> <sub> <batch> <progress> <cpu_secs> <stack_kb>`. The child
//! appends `S <i>` before each case and `D <i> ok` / `D <i> fail <msg>` after it. If the child
//! dies on a signal, the case after the last `S` marker is the culprit; the parent records the
//! death and restarts the child on the remainder.

use super::{emit, guard, Ctx, Src};
use std::io::Write;
use std::os::unix::process::ExitStatusExt;
use std::time::{Duration, Instant};

#[derive(Debug, Clone, PartialEq)]
pub enum ChildOutcome {
    Ok,
    Fail(String),
    /// killed by a signal (stack overflow => SIGABRT/SIGSEGV)
    Died(String),
    /// CPU time limit exhausted (SIGXCPU/SIGKILL under RLIMIT_CPU)
    CpuLimit,
    /// wall-clock watchdog: inconclusive
    Watchdog,
    /// every thread asleep, no CPU time consumed for a long stretch, no child processes: the call
    /// waits for something that cannot happen (a lock it already holds)
    Blocked,
}

/// (process state summary, CPU ticks) of a process from /proc: Some((all threads sleeping, utime+stime, has live children))
pub fn proc_idle_probe(pid: u32) -> Option<(bool, u64, bool)> {
    let parse = |txt: &str| -> Option<(char, u64)> {
        let rest = &txt[txt.rfind(')')? + 1..];
        let f: Vec<&str> = rest.split_whitespace().collect();
        let state = f.first()?.chars().next()?;
        let ticks = f.get(11)?.parse::<u64>().ok()? + f.get(12)?.parse::<u64>().ok()?;
        Some((state, ticks))
    };
    let mut all_sleeping = true;
    let mut ticks = 0u64;
    let mut children = false;
    let mut seen = false;
    for e in std::fs::read_dir(format!("/proc/{}/task", pid)).ok()?.flatten() {
        let tdir = e.path();
        if let Ok(txt) = std::fs::read_to_string(tdir.join("stat")) {
            if let Some((st, t)) = parse(&txt) {
                seen = true;
                ticks += t;
                if st != 'S' {
                    all_sleeping = false;
                }
            }
        }
        if let Ok(ch) = std::fs::read_to_string(tdir.join("children")) {
            if !ch.trim().is_empty() {
                children = true;
            }
        }
    }
    if seen {
        Some((all_sleeping, ticks, children))
    } else {
        None
    }
}
/// how long a child may sit fully asleep without consuming CPU before it is declared blocked
pub const BLOCKED_MS: u128 = 15_000;

static COUNTER: std::sync::atomic::AtomicU64 = std::sync::atomic::AtomicU64::new(0);

fn scratch_dir() -> String {
    if let Ok(d) = std::env::var("VERIF_SCRATCH_DIR") {
        let _ = std::fs::create_dir_all(&d);
        return d;
    }
    let root = if std::path::Path::new("/dev/shm").is_dir() { "/dev/shm" } else { "/tmp" };
    let d = format!("{}/verif-harness-{}", root, std::process::id());
    let _ = std::fs::create_dir_all(&d);
    d
}
pub fn cleanup_scratch() {
    let _ = std::fs::remove_dir_all(format!("/tmp/verif-harness-{}", std::process::id()));
    let _ = std::fs::remove_dir_all(format!("/dev/shm/verif-harness-{}", std::process::id()));
}
/// A fresh scratch file path private to this process.
pub fn scratch_path(stem: &str) -> String {
    let n = COUNTER.fetch_add(1, std::sync::atomic::Ordering::SeqCst);
    format!("{}/{}-{}", scratch_dir(), stem, n)
}

pub fn run_batch(prop: &str, sub: &str, cases: &[Vec<u32>], cpu_secs: u64, stack_kb: u64) -> Vec<ChildOutcome> {
    run_batch_opt(prop, sub, cases, cpu_secs, stack_kb, false)
}
/// As `run_batch`; with `stop_at_first_failure` the outcomes end with the first one that is not `Ok` (the
/// supervisor's isolation re-runs report one failing case per block, so the rest of the block need not be run).
/// `cpu_secs` is a limit per case, not for the whole batch.
pub fn run_batch_opt(prop: &str, sub: &str, cases: &[Vec<u32>], cpu_secs: u64, stack_kb: u64, stop_at_first_failure: bool) -> Vec<ChildOutcome> {
    let mut out: Vec<ChildOutcome> = Vec::with_capacity(cases.len());
    let exe = std::env::current_exe().expect("current_exe");
    let mut start = 0usize;
    while start < cases.len() {
        let batch = scratch_path("batch");
        let progress = scratch_path("progress");
        {
            let mut f = std::fs::File::create(&batch).expect("batch file");
            for c in &cases[start..] {
                let line: Vec<String> = c.iter().map(|w| w.to_string()).collect();
                writeln!(f, "{}", line.join(" ")).unwrap();
            }
        }
        let _ = std::fs::File::create(&progress);
        let mut child = std::process::Command::new(&exe)
            .arg("--child")
            .arg(prop)
            .arg(sub)
            .arg(&batch)
            .arg(&progress)
            .arg(cpu_secs.to_string())
            .arg(stack_kb.to_string())
            .stdin(std::process::Stdio::null())
            .stdout(std::process::Stdio::null())
            .stderr(std::process::Stdio::null())
            .spawn()
            .expect("spawn child");
        let t0 = Instant::now();
        let wall_limit = Duration::from_secs(cpu_secs * 20 + 120);
        let mut watchdog = false;
        let mut blocked = false;
        let mut last_ticks = u64::MAX;
        let mut last_progress = Instant::now();
        let mut polls = 0u64;
        let status = loop {
            match child.try_wait() {
                Ok(Some(st)) => break st,
                Ok(None) => {
                    if t0.elapsed() > wall_limit {
                        let _ = child.kill();
                        watchdog = true;
                        break child.wait().expect("wait");
                    }
                    polls += 1;
                    if polls % 250 == 0 {
                        // twice a second: has the child made any progress?
                        match proc_idle_probe(child.id()) {
                            Some((true, ticks, false)) if ticks == last_ticks => {
                                if last_progress.elapsed().as_millis() > BLOCKED_MS {
                                    let _ = child.kill();
                                    blocked = true;
                                    break child.wait().expect("wait");
                                }
                            }
                            Some((_, ticks, _)) => {
                                last_ticks = ticks;
                                last_progress = Instant::now();
                            }
                            None => last_progress = Instant::now(),
                        }
                    }
                    std::thread::sleep(Duration::from_millis(2));
                }
                Err(e) => panic!("wait: {}", e),
            }
        };
        let txt = std::fs::read_to_string(&progress).unwrap_or_default();
        let _ = std::fs::remove_file(&batch);
        let _ = std::fs::remove_file(&progress);
        let mut last_started: Option<usize> = None;
        let mut done = 0usize;
        for line in txt.lines() {
            if let Some(rest) = line.strip_prefix("S ") {
                last_started = rest.trim().parse().ok();
            } else if let Some(rest) = line.strip_prefix("D ") {
                let mut it = rest.splitn(3, ' ');
                let _i: usize = it.next().unwrap_or("0").parse().unwrap_or(0);
                let verdict = it.next().unwrap_or("");
                let msg = it.next().unwrap_or("").to_string();
                out.push(if verdict == "ok" { ChildOutcome::Ok } else { ChildOutcome::Fail(msg) });
                done += 1;
                last_started = None;
            }
        }
        if start + done >= cases.len() {
            break;
        }
        if stop_at_first_failure && out.iter().any(|o| !matches!(o, ChildOutcome::Ok)) {
            break;
        }
        // The child stopped before finishing the batch
        let culprit = last_started.unwrap_or(done);
        let sig = status.signal();
        let outcome = if blocked {
            ChildOutcome::Blocked
        } else if watchdog {
            ChildOutcome::Watchdog
        } else if sig == Some(libc::SIGXCPU) || (sig == Some(libc::SIGKILL)) {
            ChildOutcome::CpuLimit
        } else if let Some(s) = sig {
            ChildOutcome::Died(format!("killed by signal {}", s))
        } else {
            ChildOutcome::Died(format!("exited with status {:?} before finishing", status.code()))
        };
        let _ = culprit;
        out.push(outcome);
        if stop_at_first_failure {
            break;
        }
        start = out.len();
    }
    out
}

/// Entry point of the child process.
pub fn child_main(args: &[String], lookup: &dyn Fn(&str, &str) -> Option<Box<super::CaseFn<'static>>>) -> i32 {
    if args.len() < 6 {
        eprintln!("--child needs: prop sub batch progress cpu_secs stack_kb");
        return 2;
    }
    let (prop, sub, batch, progress) = (&args[0], &args[1], &args[2], &args[3]);
    let cpu: u64 = args[4].parse().unwrap_or(10);
    let stack_kb: u64 = args[5].parse().unwrap_or(8192);
    unsafe {
        // soft limit only (moved forward before every case); the hard limit stays where it is
        let mut lim: libc::rlimit = std::mem::zeroed();
        if libc::getrlimit(libc::RLIMIT_CPU, &mut lim) == 0 {
            lim.rlim_cur = cpu.min(lim.rlim_max);
            libc::setrlimit(libc::RLIMIT_CPU, &lim);
        }
        let core = libc::rlimit { rlim_cur: 0, rlim_max: 0 };
        libc::setrlimit(libc::RLIMIT_CORE, &core);
    }
    let f = match lookup(prop, sub) {
        Some(f) => f,
        None => {
            eprintln!("unknown case function {} {}", prop, sub);
            return 2;
        }
    };
    let txt = std::fs::read_to_string(batch).unwrap_or_default();
    let cases: Vec<Vec<u32>> = txt
        .lines()
        .map(|l| l.split_whitespace().filter_map(|w| w.parse().ok()).collect())
        .collect();
    let progress = progress.clone();
    let handle = std::thread::Builder::new()
        .stack_size((stack_kb as usize) * 1024)
        .spawn(move || {
            let mut pf = std::fs::OpenOptions::new().append(true).create(true).open(&progress).expect("progress");
            for (i, c) in cases.iter().enumerate() {
                writeln!(pf, "S {}", i).unwrap();
                pf.flush().unwrap();
                // the CPU limit is per case: move the soft limit to (CPU time used so far) + the allowance
                unsafe {
                    let mut ru: libc::rusage = std::mem::zeroed();
                    if libc::getrusage(libc::RUSAGE_SELF, &mut ru) == 0 {
                        let used = (ru.ru_utime.tv_sec + ru.ru_stime.tv_sec) as u64 + 1;
                        let mut lim: libc::rlimit = std::mem::zeroed();
                        if libc::getrlimit(libc::RLIMIT_CPU, &mut lim) == 0 {
                            lim.rlim_cur = (used + cpu).min(lim.rlim_max);
                            libc::setrlimit(libc::RLIMIT_CPU, &lim);
                        }
                    }
                }
                let mut ctx = Ctx::new(false);
                let mut src = Src::new(c);
                let r = guard(|| f(&mut src, &mut ctx)).and_then(|r| r);
                match r {
                    Ok(()) => writeln!(pf, "D {} ok", i).unwrap(),
                    Err(m) => writeln!(pf, "D {} fail {}", i, m.replace('\n', " | ")).unwrap(),
                }
                pf.flush().unwrap();
            }
        })
        .expect("spawn case thread");
    let _ = handle.join();
    let _ = emit;
    0
}
