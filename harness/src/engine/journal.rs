//! Last-case journal + supervisor.
//!
//! Every check runs as `supervisor -> inner`. Worker threads of the inner process record the
//! case (or enumeration block) they are about to run in a per-thread journal file. If the inner
//! process is killed (stack overflow => SIGABRT/SIGSEGV, CPU limit) or its watchdog sees a case
//! in flight for too long (exit 97), the supervisor re-runs each in-flight case alone in a
//! child process under a CPU limit and reports the ones that die as violations. A crash that
//! does not reproduce in isolation is reported as inconclusive (exit 2), never as a violation.

use super::child::ChildOutcome;
use super::{emit, hash_of, VERIF_ROOT};
use std::os::unix::fs::FileExt;
use std::os::unix::process::ExitStatusExt;
use std::sync::atomic::{AtomicU64, AtomicUsize, Ordering};
use std::sync::OnceLock;
use std::time::Instant;

pub const WORKER_STACK: usize = 64 << 20;
const MAX_SLOTS: usize = 64;
const HANG_WALL_MS: u64 = 240_000;
const CHILD_CPU_SECS: u64 = 20;

static DIR: OnceLock<Option<String>> = OnceLock::new();
static NEXT_SLOT: AtomicUsize = AtomicUsize::new(0);
static START: OnceLock<Instant> = OnceLock::new();
static BUSY_SINCE: [AtomicU64; MAX_SLOTS] = [const { AtomicU64::new(0) }; MAX_SLOTS];
static HANG_MS: AtomicU64 = AtomicU64::new(HANG_WALL_MS);
/// kernel thread id of the worker owning each slot (0 = unknown)
static SLOT_TID: [AtomicU64; MAX_SLOTS] = [const { AtomicU64::new(0) }; MAX_SLOTS];
/// a case in flight this long whose thread sleeps without consuming CPU is treated like a hang
const BLOCKED_WALL_MS: u64 = 20_000;

/// Properties whose cases are all cheap (C10, C11) lower the hang threshold.
pub fn set_hang_ms(ms: u64) {
    if std::env::var("VERIF_HANG_MS").is_err() {
        HANG_MS.store(ms, Ordering::Relaxed);
    }
}

fn dir() -> Option<&'static String> {
    DIR.get_or_init(|| std::env::var("VERIF_JOURNAL_DIR").ok()).as_ref()
}
fn now_ms() -> u64 {
    START.get_or_init(Instant::now).elapsed().as_millis() as u64 + 1
}

pub struct Slot {
    id: usize,
    file: Option<std::fs::File>,
    buf: Vec<u8>,
}
impl Slot {
    pub fn open() -> Slot {
        let id = NEXT_SLOT.fetch_add(1, Ordering::SeqCst) % MAX_SLOTS;
        let file = dir().and_then(|d| std::fs::OpenOptions::new().create(true).write(true).open(format!("{}/w{}", d, id)).ok());
        Slot { id, file, buf: Vec::with_capacity(8192) }
    }
    /// kind 0: one case (`words` = its choices); kind 1: enumeration block (`words` = start hi, lo, end hi, lo)
    pub fn begin(&mut self, sub: &str, kind: u32, words: &[u32]) {
        SLOT_TID[self.id].store(unsafe { libc::syscall(libc::SYS_gettid) } as u64, Ordering::Relaxed);
        BUSY_SINCE[self.id].store(now_ms(), Ordering::Relaxed);
        if let Some(f) = &self.file {
            self.buf.clear();
            self.buf.push(b'R');
            let mut name = [0u8; 64];
            let n = sub.len().min(64);
            name[..n].copy_from_slice(&sub.as_bytes()[..n]);
            self.buf.extend_from_slice(&name);
            self.buf.extend_from_slice(&kind.to_le_bytes());
            self.buf.extend_from_slice(&(words.len() as u32).to_le_bytes());
            for w in words {
                self.buf.extend_from_slice(&w.to_le_bytes());
            }
            let _ = f.write_all_at(&self.buf, 0);
        }
    }
    pub fn end(&mut self) {
        BUSY_SINCE[self.id].store(0, Ordering::Relaxed);
        if let Some(f) = &self.file {
            let _ = f.write_all_at(b"I", 0);
        }
    }
}

/// Started once in the inner process: exits with 97 if a case stays in flight too long.
pub fn start_watchdog() {
    if dir().is_none() {
        return;
    }
    let _ = now_ms();
    if let Some(ms) = std::env::var("VERIF_HANG_MS").ok().and_then(|s| s.parse().ok()) {
        HANG_MS.store(ms, Ordering::Relaxed);
    }
    std::thread::spawn(move || {
        // per slot: (start of the case being watched, CPU ticks last seen, when they last changed)
        let mut seen: Vec<(u64, u64, u64)> = vec![(0, 0, 0); MAX_SLOTS];
        loop {
            std::thread::sleep(std::time::Duration::from_millis(500));
            let now = now_ms();
            for (i, s) in BUSY_SINCE.iter().enumerate() {
                let t = s.load(Ordering::Relaxed);
                if t == 0 {
                    continue;
                }
                if now.saturating_sub(t) > HANG_MS.load(Ordering::Relaxed) {
                    std::process::exit(97);
                }
                // long in flight and asleep without consuming CPU: blocked (a lock that is never released)
                if now.saturating_sub(t) > BLOCKED_WALL_MS {
                    let tid = SLOT_TID[i].load(Ordering::Relaxed);
                    if let Ok(txt) = std::fs::read_to_string(format!("/proc/self/task/{}/stat", tid)) {
                        if let Some(close) = txt.rfind(')') {
                            let f: Vec<&str> = txt[close + 1..].split_whitespace().collect();
                            let state = f.first().and_then(|x| x.chars().next()).unwrap_or('R');
                            let ticks = f.get(11).and_then(|x| x.parse::<u64>().ok()).unwrap_or(0) + f.get(12).and_then(|x| x.parse::<u64>().ok()).unwrap_or(0);
                            let e = &mut seen[i];
                            if e.0 != t || e.1 != ticks || state != 'S' {
                                *e = (t, ticks, now);
                            } else if now.saturating_sub(e.2) > BLOCKED_WALL_MS {
                                std::process::exit(97);
                            }
                        }
                    }
                }
            }
        }
    });
}

struct InFlight {
    sub: String,
    kind: u32,
    words: Vec<u32>,
}
fn read_journals(d: &str) -> Vec<InFlight> {
    let mut out = vec![];
    if let Ok(rd) = std::fs::read_dir(d) {
        for e in rd.flatten() {
            if let Ok(b) = std::fs::read(e.path()) {
                if b.len() < 73 || b[0] != b'R' {
                    continue;
                }
                let name_end = b[1..65].iter().position(|c| *c == 0).unwrap_or(64);
                let sub = String::from_utf8_lossy(&b[1..1 + name_end]).to_string();
                let kind = u32::from_le_bytes(b[65..69].try_into().unwrap());
                let n = u32::from_le_bytes(b[69..73].try_into().unwrap()) as usize;
                if b.len() < 73 + 4 * n {
                    continue;
                }
                let words = (0..n).map(|i| u32::from_le_bytes(b[73 + 4 * i..77 + 4 * i].try_into().unwrap())).collect();
                out.push(InFlight { sub, kind, words });
            }
        }
    }
    out
}

/// Entry point of the supervisor process. `args` are the original arguments.
pub fn supervise(prop: &str, level: &str, args: &[String], tier: &str, seed: u64) -> i32 {
    let d = format!("/tmp/verif-journal-{}", std::process::id());
    let _ = std::fs::remove_dir_all(&d);
    let _ = std::fs::create_dir_all(&d);
    let exe = std::env::current_exe().expect("current_exe");
    let status = std::process::Command::new(&exe).args(args).arg("--inner").env("VERIF_JOURNAL_DIR", &d).status();
    let status = match status {
        Ok(s) => s,
        Err(e) => {
            emit(&format!("cannot start inner process: {}", e));
            return 2;
        }
    };
    if let Some(c) = status.code() {
        if c != 97 {
            let _ = std::fs::remove_dir_all(&d);
            return c;
        }
    }
    let how = match status.signal() {
        Some(s) => format!("killed by signal {}", s),
        None => "stopped by the hang watchdog".to_string(),
    };
    emit(&format!("  [{}] checking process {}; re-running in-flight cases in isolation", prop, how));
    let inflight = read_journals(&d);
    let _ = std::fs::remove_dir_all(&d);
    // every in-flight case (or enumeration block) is re-run alone, all of them in parallel
    let results: std::sync::Mutex<Vec<(String, String)>> = std::sync::Mutex::new(vec![]);
    std::thread::scope(|sc| {
        for f in &inflight {
            let results = &results;
            sc.spawn(move || {
                let cases: Vec<Vec<u32>> = if f.kind == 0 {
                    vec![f.words.clone()]
                } else if f.words.len() == 4 {
                    let s = ((f.words[0] as u64) << 32) | f.words[1] as u64;
                    let e = ((f.words[2] as u64) << 32) | f.words[3] as u64;
                    (s..e).map(|i| vec![(i >> 32) as u32, i as u32]).collect()
                } else {
                    vec![]
                };
                let outcomes = super::child::run_batch_opt(prop, &f.sub, &cases, CHILD_CPU_SECS, (WORKER_STACK / 1024) as u64, true);
                for (c, o) in cases.iter().zip(outcomes.iter()) {
                    let msg = match o {
                        ChildOutcome::Died(m) => format!("the call did not return: process {} (stack overflow / abort)", m),
                        ChildOutcome::CpuLimit => format!("the call did not return within {} s of CPU time (loop?)", CHILD_CPU_SECS),
                        ChildOutcome::Blocked => "the call does not return: every thread sleeps and no CPU time is consumed (it waits for a lock that is never released)".to_string(),
                        ChildOutcome::Fail(m) => m.clone(),
                        _ => continue,
                    };
                    let dirp = format!("{}/replay/{}", VERIF_ROOT, prop);
                    let _ = std::fs::create_dir_all(&dirp);
                    let path = format!("{}/fail-{}-{:016x}.json", dirp, f.sub, hash_of(&(f.sub.as_str(), c)));
                    let doc = serde_json::json!({"property": prop, "sub": f.sub, "choices": c, "message": msg, "seed": seed, "tier": tier});
                    let _ = std::fs::write(&path, serde_json::to_string_pretty(&doc).unwrap());
                    results.lock().unwrap().push((path, msg));
                    break;
                }
            });
        }
    });
    let mut violations = results.into_inner().unwrap();
    violations.sort();
    violations.truncate(3);
    let ev = serde_json::json!({
        "property_id": prop, "tier": tier, "seed": seed, "level": level,
        "coverage": {"evaluations": inflight.len().max(1), "distinct_nontrivial": inflight.len(), "rule": "checking process died; in-flight cases re-run in isolation",
                      "samples": inflight.iter().map(|f| serde_json::json!({"sub": f.sub, "choices": f.words})).collect::<Vec<_>>() },
        "wall_s": 0.0, "violations": violations.len(),
    });
    let _ = std::fs::write(format!("{}/evidence/{}.json", VERIF_ROOT, prop), serde_json::to_string_pretty(&ev).unwrap());
    super::child::cleanup_scratch();
    if violations.is_empty() {
        emit(&format!("INCONCLUSIVE property={} checking process {} and no in-flight case reproduces it in isolation", prop, how));
        return 2;
    }
    for (p, m) in violations {
        emit(&format!("  failure: {}", m));
        emit(&format!("VIOLATION property={} replay={}", prop, p));
    }
    1
}
