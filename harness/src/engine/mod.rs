//! Engine: proptest-driven exploration over choice sequences, exhaustive enumerators,
//! statistics, evidence, replay files, known findings and the output protocol.

pub mod alloc;
pub mod child;
pub mod journal;
pub mod src;

pub use src::Src;

use proptest::collection::vec as pvec;
use proptest::prelude::any;
use proptest::test_runner::{Config, RngSeed, TestCaseError, TestError, TestRunner};
use serde_json::{json, Value};
use std::cell::RefCell;
use std::collections::{BTreeMap, HashSet};
use std::io::Write;
use std::panic::{catch_unwind, AssertUnwindSafe};
use std::sync::atomic::{AtomicBool, AtomicU64, AtomicUsize, Ordering};
use std::sync::Mutex;
use std::time::Instant;

pub const VERIF_ROOT: &str = "/verif";
pub const SHARDS: usize = 16;

// ------------------------------------------------------------------------------------------
// Output protocol: the library under test prints to stdout; we keep the real stdout for
// ourselves and point fd 1 at /dev/null.
// ------------------------------------------------------------------------------------------
static OUT_FD: AtomicUsize = AtomicUsize::new(1);

pub fn capture_stdout() {
    unsafe {
        let saved = libc::dup(1);
        if saved < 0 {
            return;
        }
        let devnull = libc::open(b"/dev/null\0".as_ptr() as *const libc::c_char, libc::O_WRONLY);
        if devnull >= 0 {
            libc::dup2(devnull, 1);
            // the library also prints warnings to stderr (once per case); drop them too
            libc::dup2(devnull, 2);
            libc::close(devnull);
            OUT_FD.store(saved as usize, Ordering::SeqCst);
        }
    }
}
pub fn emit(line: &str) {
    let fd = OUT_FD.load(Ordering::SeqCst) as i32;
    let mut s = line.to_string();
    s.push('\n');
    let b = s.as_bytes();
    let mut off = 0;
    while off < b.len() {
        let n = unsafe { libc::write(fd, b[off..].as_ptr() as *const libc::c_void, b.len() - off) };
        if n <= 0 {
            break;
        }
        off += n as usize;
    }
}
pub fn out_fd() -> i32 {
    OUT_FD.load(Ordering::SeqCst) as i32
}

// ------------------------------------------------------------------------------------------
// Panic capture
// ------------------------------------------------------------------------------------------
thread_local! {
    static LAST_PANIC: RefCell<Option<String>> = RefCell::new(None);
}
pub fn install_panic_hook() {
    std::panic::set_hook(Box::new(|info| {
        let msg = if let Some(s) = info.payload().downcast_ref::<&str>() {
            s.to_string()
        } else if let Some(s) = info.payload().downcast_ref::<String>() {
            s.clone()
        } else {
            "<non-string panic>".to_string()
        };
        let loc = info
            .location()
            .map(|l| format!("{}:{}", l.file(), l.line()))
            .unwrap_or_default();
        LAST_PANIC.with(|p| *p.borrow_mut() = Some(format!("panic at {}: {}", loc, msg)));
    }));
}
/// Run `f`, converting a panic into `Err(message)`.
pub fn guard<T>(f: impl FnOnce() -> T) -> Result<T, String> {
    match catch_unwind(AssertUnwindSafe(f)) {
        Ok(v) => Ok(v),
        Err(_) => Err(LAST_PANIC
            .with(|p| p.borrow_mut().take())
            .unwrap_or_else(|| "panic".to_string())),
    }
}

// ------------------------------------------------------------------------------------------
// Statistics gathered while cases run
// ------------------------------------------------------------------------------------------
#[derive(Default, Clone)]
pub struct Stats {
    pub evaluations: u64,
    pub nontrivial: HashSet<u64>,
    pub classes: BTreeMap<String, u64>,
    pub samples: Vec<(String, String)>,
    pub refused: BTreeMap<String, u64>,
    pub excluded: BTreeMap<String, u64>,
}
impl Stats {
    fn merge(&mut self, other: Stats) {
        self.evaluations += other.evaluations;
        self.nontrivial.extend(other.nontrivial);
        for (k, v) in other.classes {
            *self.classes.entry(k).or_default() += v;
        }
        for (k, v) in other.refused {
            *self.refused.entry(k).or_default() += v;
        }
        for (k, v) in other.excluded {
            *self.excluded.entry(k).or_default() += v;
        }
        for s in other.samples {
            let same = self.samples.iter().filter(|x| x.0 == s.0).count();
            if self.samples.len() < 10 && same < 2 {
                self.samples.push(s);
            }
        }
    }
}

pub struct Ctx {
    live: bool,
    pub stats: Stats,
    /// strict: replay mode (no tolerance of anything; collect nothing)
    pub replay: bool,
}
impl Ctx {
    pub fn new(live: bool) -> Self {
        Ctx { live, stats: Stats::default(), replay: false }
    }
    /// A case that checks a batch of `n` independent values counts as `n` evaluations.
    pub fn extra_evals(&mut self, n: u64) {
        if self.live {
            self.stats.evaluations += n;
        }
    }
    pub fn label(&mut self, class: &str) {
        if self.live {
            *self.stats.classes.entry(class.to_string()).or_default() += 1;
        }
    }
    pub fn label_n(&mut self, class: &str, n: u64) {
        if self.live && n > 0 {
            *self.stats.classes.entry(class.to_string()).or_default() += n;
        }
    }
    /// Record a non-trivial case by the hash of its canonical form.
    pub fn nontrivial(&mut self, hash: u64) {
        if self.live {
            self.stats.nontrivial.insert(hash);
        }
    }
    pub fn refused(&mut self, why: &str) {
        if self.live {
            *self.stats.refused.entry(why.to_string()).or_default() += 1;
        }
    }
    pub fn excluded(&mut self, key: &str) {
        if self.live {
            *self.stats.excluded.entry(key.to_string()).or_default() += 1;
        }
    }
    /// Keep up to two samples per class (ten overall); `f` renders the case lazily.
    pub fn sample(&mut self, class: &str, f: impl FnOnce() -> String) {
        if !self.live {
            return;
        }
        let same = self.stats.samples.iter().filter(|x| x.0 == class).count();
        if self.stats.samples.len() < 10 && same < 2 {
            let mut s = f();
            if s.len() > 1500 {
                let mut cut = 1500;
                while !s.is_char_boundary(cut) {
                    cut -= 1;
                }
                s.truncate(cut);
                s.push_str(" …");
            }
            self.stats.samples.push((class.to_string(), s));
        }
    }
}

pub fn hash_of<T: std::hash::Hash>(t: &T) -> u64 {
    use std::hash::Hasher;
    // Fixed-key hasher: evidence counts must not depend on the process hash seed.
    let mut h = Fnv(0xcbf29ce484222325);
    t.hash(&mut h);
    h.finish()
}
pub struct Fnv(pub u64);
impl std::hash::Hasher for Fnv {
    fn finish(&self) -> u64 {
        self.0
    }
    fn write(&mut self, bytes: &[u8]) {
        for b in bytes {
            self.0 ^= *b as u64;
            self.0 = self.0.wrapping_mul(0x100000001b3);
        }
    }
}
/// Truncate in place at a character boundary at or below `n` bytes.
pub fn clip(s: &mut String, n: usize) {
    if s.len() > n {
        let mut cut = n;
        while !s.is_char_boundary(cut) {
            cut -= 1;
        }
        s.truncate(cut);
    }
}
pub fn hash_str(s: &str) -> u64 {
    hash_of(&s)
}

// ------------------------------------------------------------------------------------------
// Run configuration and results
// ------------------------------------------------------------------------------------------
#[derive(Clone, Copy, PartialEq, Eq, Debug)]
pub enum Tier {
    Quick,
    Thorough,
}
impl Tier {
    pub fn name(&self) -> &'static str {
        match self {
            Tier::Quick => "quick",
            Tier::Thorough => "thorough",
        }
    }
    /// Pick a count by tier
    pub fn pick(&self, quick: u64, thorough: u64) -> u64 {
        match self {
            Tier::Quick => quick,
            Tier::Thorough => thorough,
        }
    }
}

pub type CaseFn<'a> = dyn Fn(&mut Src, &mut Ctx) -> Result<(), String> + Send + Sync + 'a;

/// Run a case function in a thread of its own: whatever the code under test keeps per thread (thread-local
/// caches, memo tables, scratch buffers) is then in its initial state for every case, as it is for the first
/// call a program makes. A panic in the case is passed on to the caller unchanged.
pub fn in_fresh_thread<'a>(f: &'a CaseFn<'a>) -> impl Fn(&mut Src, &mut Ctx) -> Result<(), String> + Send + Sync + 'a {
    move |src, ctx| {
        std::thread::scope(|sc| {
            let h = std::thread::Builder::new().stack_size(8 << 20).spawn_scoped(sc, || f(src, ctx));
            match h {
                Ok(h) => match h.join() {
                    Ok(r) => r,
                    Err(p) => std::panic::resume_unwind(p),
                },
                Err(e) => Err(format!("harness: cannot spawn a thread: {}", e)),
            }
        })
    }
}

#[derive(Clone)]
pub struct Failure {
    pub sub: String,
    pub choices: Vec<u32>,
    pub message: String,
}

pub struct SubResult {
    pub name: String,
    pub kind: &'static str,
    pub exhaustive: bool,
    pub stats: Stats,
    pub failure: Option<Failure>,
    pub wall_s: f64,
}

/// One run of one property's check: collects sub-results, writes evidence, prints the protocol.
pub struct Run {
    pub prop: String,
    pub level: &'static str,
    pub tier: Tier,
    pub seed: u64,
    pub rule: String,
    pub assumptions: Vec<String>,
    pub subs: Vec<SubResult>,
    pub known: KnownFindings,
    pub known_lines: Vec<String>,
    pub violations: Vec<(String, String)>, // (replay path, message)
    pub notes: Vec<String>,
    pub threads: usize,
    start: Instant,
    pub inconclusive: Vec<String>,
    pub min_nontrivial: u64,
}

fn mix(seed: u64, name: &str, shard: u64) -> u64 {
    let mut h = Fnv(0xcbf29ce484222325 ^ seed.wrapping_mul(0x9E3779B97F4A7C15));
    use std::hash::Hasher;
    h.write(name.as_bytes());
    h.write(&shard.to_le_bytes());
    h.write(&seed.to_le_bytes());
    h.finish()
}

impl Run {
    pub fn new(prop: &str, level: &'static str, tier: Tier, seed: u64) -> Self {
        let threads = std::thread::available_parallelism().map(|n| n.get()).unwrap_or(4).min(16);
        Run {
            prop: prop.to_string(),
            level,
            tier,
            seed,
            rule: String::new(),
            assumptions: vec![],
            subs: vec![],
            known: KnownFindings::load(),
            known_lines: vec![],
            violations: vec![],
            notes: vec![],
            threads,
            start: Instant::now(),
            inconclusive: vec![],
            min_nontrivial: 2,
        }
    }
    pub fn rule(&mut self, s: &str) {
        self.rule = s.to_string();
    }
    pub fn assume(&mut self, s: &str) {
        self.assumptions.push(s.to_string());
    }
    pub fn note(&mut self, s: &str) {
        self.notes.push(s.to_string());
    }
    /// Is finding `key` listed as an open (known, unrepaired) finding for this property?
    pub fn open(&self, key: &str) -> bool {
        self.known.is_open(&self.prop, key)
    }

    /// Random exploration: `cases` choice sequences of up to `max_words` words through proptest.
    /// `explore` with every case run in a thread of its own (sub-check `<name>-fresh-thread`): per-thread state
    /// of the code under test starts from scratch for each case
    pub fn explore_fresh(&mut self, name: &str, cases: u64, max_words: usize, f: &CaseFn) {
        let w = in_fresh_thread(f);
        self.explore(&format!("{}-fresh-thread", name), cases, max_words, &w);
    }
    pub fn explore(&mut self, name: &str, cases: u64, max_words: usize, f: &CaseFn) {
        let t0 = Instant::now();
        let per_shard = ((cases + SHARDS as u64 - 1) / SHARDS as u64).max(1) as u32;
        let next = AtomicUsize::new(0);
        let stop = AtomicBool::new(false);
        let results: Mutex<Vec<(usize, Stats, Option<(Vec<u32>, String)>)>> = Mutex::new(vec![]);
        let seed = self.seed;
        std::thread::scope(|sc| {
            for _ in 0..self.threads.min(SHARDS) {
                std::thread::Builder::new()
                    .stack_size(journal::WORKER_STACK)
                    .spawn_scoped(sc, || loop {
                        let shard = next.fetch_add(1, Ordering::SeqCst);
                        if shard >= SHARDS {
                            break;
                        }
                        let (stats, fail) = run_shard(name, seed, shard, per_shard, max_words, f, &stop);
                        results.lock().unwrap().push((shard, stats, fail));
                    })
                    .expect("spawn worker");
            }
        });
        let mut results = results.into_inner().unwrap();
        results.sort_by_key(|r| r.0);
        let mut stats = Stats::default();
        let mut failure = None;
        for (_, s, fl) in results {
            stats.merge(s);
            if failure.is_none() {
                if let Some((choices, message)) = fl {
                    failure = Some(Failure { sub: name.to_string(), choices, message });
                }
            }
        }
        self.subs.push(SubResult {
            name: name.to_string(),
            kind: "proptest",
            exhaustive: false,
            stats,
            failure,
            wall_s: t0.elapsed().as_secs_f64(),
        });
    }

    /// Exhaustive enumeration of indices `0..total`; the case function reads the index with
    /// `src.u64()`. Reports the smallest failing index.
    pub fn enumerate(&mut self, name: &str, total: u64, f: &CaseFn) {
        let t0 = Instant::now();
        const BLOCK: u64 = 1024;
        let next = AtomicU64::new(0);
        let min_fail = AtomicU64::new(u64::MAX);
        let merged: Mutex<Stats> = Mutex::new(Stats::default());
        let fails: Mutex<Vec<(u64, String)>> = Mutex::new(vec![]);
        std::thread::scope(|sc| {
            for _ in 0..self.threads {
                std::thread::Builder::new().stack_size(journal::WORKER_STACK).spawn_scoped(sc, || {
                    let mut ctx = Ctx::new(true);
                    let mut slot = journal::Slot::open();
                    loop {
                        let b0 = next.fetch_add(BLOCK, Ordering::SeqCst);
                        if b0 >= total || b0 > min_fail.load(Ordering::SeqCst) {
                            break;
                        }
                        let b1 = (b0 + BLOCK).min(total);
                        slot.begin(name, 1, &[(b0 >> 32) as u32, b0 as u32, (b1 >> 32) as u32, b1 as u32]);
                        for i in b0..b1 {
                            let words = [(i >> 32) as u32, i as u32];
                            let mut src = Src::new(&words);
                            ctx.stats.evaluations += 1;
                            let r = guard(|| f(&mut src, &mut ctx));
                            let r = match r {
                                Ok(r) => r,
                                Err(p) => Err(p),
                            };
                            if let Err(m) = r {
                                min_fail.fetch_min(i, Ordering::SeqCst);
                                fails.lock().unwrap().push((i, m));
                                break;
                            }
                        }
                        slot.end();
                    }
                    merged.lock().unwrap().merge(ctx.stats);
                }).expect("spawn worker");
            }
        });
        let mut fails = fails.into_inner().unwrap();
        fails.sort();
        let failure = fails.into_iter().next().map(|(i, m)| Failure {
            sub: name.to_string(),
            choices: vec![(i >> 32) as u32, i as u32],
            message: m,
        });
        self.subs.push(SubResult {
            name: name.to_string(),
            kind: "enumeration",
            exhaustive: failure.is_none(),
            stats: merged.into_inner().unwrap(),
            failure,
            wall_s: t0.elapsed().as_secs_f64(),
        });
    }

    /// A fixed list of literal cases (regression inputs, hand-written boundary cases).
    pub fn literals(&mut self, name: &str, cases: &[Vec<u32>], f: &CaseFn) {
        let t0 = Instant::now();
        let mut ctx = Ctx::new(true);
        let mut failure = None;
        let mut slot = journal::Slot::open();
        for c in cases {
            let mut src = Src::new(c);
            ctx.stats.evaluations += 1;
            slot.begin(name, 0, c);
            let r = guard(|| f(&mut src, &mut ctx)).and_then(|r| r);
            slot.end();
            if let Err(m) = r {
                failure = Some(Failure { sub: name.to_string(), choices: c.clone(), message: m });
                break;
            }
        }
        self.subs.push(SubResult {
            name: name.to_string(),
            kind: "literal",
            exhaustive: false,
            stats: ctx.stats,
            failure,
            wall_s: t0.elapsed().as_secs_f64(),
        });
    }

    /// Push a sub-result computed elsewhere (child-process batches etc).
    pub fn push(&mut self, sub: SubResult) {
        self.subs.push(sub);
    }

    /// A named demonstration of a finding (open or fixed). `r` is the result of running the
    /// demonstration through the plain oracle on the current tree.
    pub fn finding_demo(&mut self, key: &str, choices: &[u32], sub: &str, r: Result<(), String>) {
        match r {
            Ok(()) => {
                if self.known.is_open(&self.prop, key) {
                    self.notes.push(format!("known finding {} no longer reproduces", key));
                }
            }
            Err(m) => {
                if self.known.is_open(&self.prop, key) {
                    let what = self.known.what(&self.prop, key);
                    self.known_lines.push(format!("KNOWN-FINDING: property={} {} [{}]", self.prop, what, key));
                } else {
                    // Fixed (or never listed) finding that fails: a regression => violation
                    let fl = Failure { sub: sub.to_string(), choices: choices.to_vec(), message: format!("regression {}: {}", key, m) };
                    let path = self.write_replay(&fl, None);
                    self.violations.push((path, fl.message.clone()));
                }
            }
        }
    }

    fn write_replay(&self, fl: &Failure, rendering: Option<String>) -> String {
        let dir = format!("{}/replay/{}", VERIF_ROOT, self.prop);
        let _ = std::fs::create_dir_all(&dir);
        let h = hash_of(&(fl.sub.as_str(), &fl.choices));
        let path = format!("{}/fail-{}-{:016x}.json", dir, fl.sub, h);
        let doc = json!({
            "property": self.prop,
            "sub": fl.sub,
            "choices": fl.choices,
            "message": fl.message,
            "case": rendering,
            "seed": self.seed,
            "tier": self.tier.name(),
        });
        let _ = std::fs::write(&path, serde_json::to_string_pretty(&doc).unwrap());
        path
    }

    /// Finish: write evidence, print protocol lines, return the exit code.
    pub fn finish(mut self, render: &dyn Fn(&str, &[u32]) -> Option<String>) -> i32 {
        // Collect failures of sub-checks
        let fails: Vec<Failure> = self.subs.iter().filter_map(|s| s.failure.clone()).collect();
        for fl in fails {
            let rendering = guard(|| render(&fl.sub, &fl.choices)).ok().flatten();
            let path = self.write_replay(&fl, rendering);
            self.violations.push((path, fl.message.clone()));
        }
        let mut total = Stats::default();
        for s in &self.subs {
            total.merge(s.stats.clone());
        }
        let wall = self.start.elapsed().as_secs_f64();
        let subs_json: Vec<Value> = self
            .subs
            .iter()
            .map(|s| {
                json!({
                    "name": s.name, "kind": s.kind, "exhaustive": s.exhaustive,
                    "evaluations": s.stats.evaluations,
                    "distinct_nontrivial": s.stats.nontrivial.len(),
                    "wall_s": (s.wall_s * 1000.0).round() / 1000.0,
                    "failed": s.failure.is_some(),
                })
            })
            .collect();
        let samples: Vec<Value> = total.samples.iter().map(|(c, s)| json!({"class": c, "case": s})).collect();
        let all_exhaustive = !self.subs.is_empty() && self.subs.iter().all(|s| s.exhaustive);
        let distinct = total.nontrivial.len() as u64;
        if distinct < self.min_nontrivial && self.violations.is_empty() {
            self.inconclusive.push(format!(
                "vacuity guard: only {} distinct non-trivial cases (floor {})",
                distinct, self.min_nontrivial
            ));
        }
        let ev = json!({
            "property_id": self.prop,
            "tier": self.tier.name(),
            "seed": self.seed,
            "level": self.level,
            "coverage": {
                "evaluations": total.evaluations,
                "distinct_nontrivial": distinct,
                "rule": self.rule,
                "samples": samples,
                "exhaustive": all_exhaustive,
                "classes": total.classes,
                "refused": total.refused,
                "excluded_by_construction": total.excluded,
                "sub_checks": subs_json,
                "known_findings_reported": self.known_lines,
                "notes": self.notes,
                "inconclusive": self.inconclusive,
            },
            "assumptions": self.assumptions,
            "wall_s": (wall * 1000.0).round() / 1000.0,
            "violations": self.violations.len(),
        });
        let evdir = format!("{}/evidence", VERIF_ROOT);
        let _ = std::fs::create_dir_all(&evdir);
        let evpath = format!("{}/{}.json", evdir, self.prop);
        let tmp = format!("{}.tmp{}", evpath, std::process::id());
        if std::fs::write(&tmp, serde_json::to_string_pretty(&ev).unwrap()).is_ok() {
            let _ = std::fs::rename(&tmp, &evpath);
        }

        for l in &self.known_lines {
            emit(l);
        }
        for s in &self.subs {
            emit(&format!(
                "  [{}] {} {}: {} cases, {} distinct non-trivial, {:.1}s{}",
                self.prop,
                s.kind,
                s.name,
                s.stats.evaluations,
                s.stats.nontrivial.len(),
                s.wall_s,
                if s.failure.is_some() { "  FAILED" } else { "" }
            ));
        }
        for n in &self.notes {
            emit(&format!("  note: {}", n));
        }
        if !self.violations.is_empty() {
            for (path, msg) in &self.violations {
                let mut m = msg.replace('\n', " | ");
                if m.len() > 600 {
                    let mut cut = 600;
                    while !m.is_char_boundary(cut) {
                        cut -= 1;
                    }
                    m.truncate(cut);
                }
                emit(&format!("  failure: {}", m));
                emit(&format!("VIOLATION property={} replay={}", self.prop, path));
            }
            return 1;
        }
        if !self.inconclusive.is_empty() {
            for i in &self.inconclusive {
                emit(&format!("INCONCLUSIVE property={} {}", self.prop, i));
            }
            return 2;
        }
        emit(&format!(
            "OK property={} tier={} seed={} evaluations={} distinct_nontrivial={} wall_s={:.1}",
            self.prop,
            self.tier.name(),
            self.seed,
            total.evaluations,
            distinct,
            wall
        ));
        0
    }
}

/// Deterministic choice vectors (full length) for building fixed base inputs from the seed.
pub fn draw_vectors(seed: u64, name: &str, count: usize, words: usize) -> Vec<Vec<u32>> {
    use proptest::strategy::{Strategy, ValueTree};
    let mut cfg = Config::default();
    cfg.failure_persistence = None;
    cfg.rng_seed = RngSeed::Fixed(mix(seed, name, 0xBA5E));
    let mut runner = TestRunner::new(cfg);
    let strat = pvec(any::<u32>(), words..=words);
    (0..count).map(|_| strat.new_tree(&mut runner).expect("draw").current()).collect()
}
pub fn env_seed() -> u64 {
    std::env::var("VERIF_SEED").ok().and_then(|s| s.trim().parse::<i64>().ok()).map(|v| v as u64).unwrap_or(0)
}

fn run_shard(
    name: &str,
    seed: u64,
    shard: usize,
    cases: u32,
    max_words: usize,
    f: &CaseFn,
    stop: &AtomicBool,
) -> (Stats, Option<(Vec<u32>, String)>) {
    let mut cfg = Config::default();
    cfg.cases = cases;
    cfg.failure_persistence = None;
    cfg.rng_seed = RngSeed::Fixed(mix(seed, name, shard as u64));
    cfg.max_shrink_iters = 3000;
    cfg.max_shrink_time = 20_000;
    cfg.verbose = 0;
    cfg.max_local_rejects = u32::MAX;
    cfg.max_global_rejects = u32::MAX;
    let mut runner = TestRunner::new(cfg);
    let ctx = RefCell::new(Ctx::new(true));
    let failed = std::cell::Cell::new(false);
    let slot = RefCell::new(journal::Slot::open());
    // Mix of lengths: the vector length is uniform in 0..=max_words, so every case has a
    // random "budget" after which all further choices are the simplest ones.
    let strat = pvec(any::<u32>(), 0..=max_words);
    let result = runner.run(&strat, |choices| {
        if !failed.get() && stop.load(Ordering::Relaxed) {
            return Ok(());
        }
        let mut src = Src::new(&choices);
        slot.borrow_mut().begin(name, 0, &choices);
        let r = if failed.get() {
            let mut scratch = Ctx::new(false);
            guard(|| f(&mut src, &mut scratch)).and_then(|r| r)
        } else {
            let mut c = ctx.borrow_mut();
            c.stats.evaluations += 1;
            guard(|| f(&mut src, &mut c)).and_then(|r| r)
        };
        slot.borrow_mut().end();
        match r {
            Ok(()) => Ok(()),
            Err(m) => {
                failed.set(true);
                stop.store(true, Ordering::Relaxed);
                Err(TestCaseError::fail(m))
            }
        }
    });
    let stats = ctx.into_inner().stats;
    match result {
        Ok(()) => (stats, None),
        Err(TestError::Fail(reason, mut choices)) => {
            // trim trailing zeros: an exhausted source yields zeros anyway
            while choices.last() == Some(&0) {
                choices.pop();
            }
            (stats, Some((choices, reason.message().to_string())))
        }
        Err(TestError::Abort(reason)) => (stats, Some((vec![], format!("proptest abort: {}", reason.message())))),
    }
}

// ------------------------------------------------------------------------------------------
// Known findings
// ------------------------------------------------------------------------------------------
#[derive(Default, Clone)]
pub struct KnownFindings {
    pub entries: Vec<Value>,
}
impl KnownFindings {
    pub fn load() -> Self {
        let path = format!("{}/known_findings.json", VERIF_ROOT);
        let txt = std::fs::read_to_string(path).unwrap_or_else(|_| "{\"findings\":[]}".to_string());
        let v: Value = serde_json::from_str(&txt).unwrap_or(json!({"findings": []}));
        KnownFindings { entries: v["findings"].as_array().cloned().unwrap_or_default() }
    }
    fn find(&self, prop: &str, key: &str) -> Option<&Value> {
        self.entries.iter().find(|e| {
            e["key"] == key
                && (e["property"] == prop || e["properties"].as_array().map(|a| a.iter().any(|p| p == prop)).unwrap_or(false))
        })
    }
    pub fn is_open(&self, prop: &str, key: &str) -> bool {
        self.find(prop, key).map(|e| e["status"] == "known").unwrap_or(false)
    }
    pub fn what(&self, prop: &str, key: &str) -> String {
        self.find(prop, key).and_then(|e| e["what"].as_str()).unwrap_or("").to_string()
    }
}

// ------------------------------------------------------------------------------------------
// Replay files
// ------------------------------------------------------------------------------------------
pub struct Replay {
    pub sub: String,
    pub choices: Vec<u32>,
    pub seed: Option<u64>,
}
pub fn load_replay(path: &str) -> Result<Replay, String> {
    let raw = std::fs::read(path).map_err(|e| format!("{}: {}", path, e))?;
    let parsed: Option<Value> = std::str::from_utf8(&raw).ok().and_then(|t| serde_json::from_str(t).ok()).filter(|v: &Value| v.get("sub").is_some());
    let v = match parsed {
        Some(v) => v,
        // not one of our replay documents: a raw input saved by a fuzzer (C10: bytes, C11: text)
        None => return Ok(Replay { sub: "raw-file".to_string(), choices: raw.iter().map(|b| *b as u32).collect(), seed: None }),
    };
    let sub = v["sub"].as_str().ok_or("replay file without 'sub'")?.to_string();
    let choices = v["choices"]
        .as_array()
        .ok_or("replay file without 'choices'")?
        .iter()
        .map(|x| x.as_u64().unwrap_or(0) as u32)
        .collect();
    let seed = v["seed"].as_u64();
    Ok(Replay { sub, choices, seed })
}

pub fn flush_stderr() {
    let _ = std::io::stderr().flush();
}
