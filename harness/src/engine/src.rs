//! Choice source: every generator draws from a recorded sequence of `u32` words.
//!
//! The sequence is produced by proptest (`vec(any::<u32>(), ..)`), by an exhaustive
//! enumerator (literal words) or by a fuzzer (bytes). All maps from word to value are
//! monotone, and an exhausted source yields zeros, so that deleting or lowering words —
//! which is what proptest's shrinker does — always gives a "simpler" case.

pub struct Src<'a> {
    data: &'a [u32],
    pos: usize,
}

impl<'a> Src<'a> {
    pub fn new(data: &'a [u32]) -> Self {
        Self { data, pos: 0 }
    }
    /// Number of words consumed so far
    pub fn used(&self) -> usize {
        self.pos
    }
    pub fn exhausted(&self) -> bool {
        self.pos >= self.data.len()
    }
    /// Next raw word; zero once exhausted.
    pub fn word(&mut self) -> u32 {
        let v = self.data.get(self.pos).copied().unwrap_or(0);
        self.pos += 1;
        v
    }
    pub fn u64(&mut self) -> u64 {
        let hi = self.word() as u64;
        let lo = self.word() as u64;
        (hi << 32) | lo
    }
    /// Uniform in `0..n` (n >= 1), monotone in the underlying word.
    pub fn below(&mut self, n: u64) -> u64 {
        debug_assert!(n >= 1);
        if n <= 1 {
            // still consume a word so that structure is stable
            self.word();
            return 0;
        }
        if n <= (1u64 << 32) {
            ((self.word() as u64) * n) >> 32
        } else {
            let w = self.u64();
            (((w as u128) * (n as u128)) >> 64) as u64
        }
    }
    pub fn usize_in(&mut self, lo: usize, hi_incl: usize) -> usize {
        lo + self.below((hi_incl - lo + 1) as u64) as usize
    }
    /// Uniform in lo..=hi; shrinks towards `lo`.
    pub fn i64_in(&mut self, lo: i64, hi_incl: i64) -> i64 {
        let span = (hi_incl as i128 - lo as i128 + 1) as u64;
        (lo as i128 + self.below(span) as i128) as i64
    }
    /// Integer in -m..=m shrinking towards zero (0, 1, -1, 2, -2, ...)
    pub fn signed(&mut self, m: i64) -> i64 {
        let k = self.below((2 * m + 1) as u64) as i64;
        if k % 2 == 0 {
            -(k / 2)
        } else {
            (k + 1) / 2
        }
    }
    pub fn bool(&mut self) -> bool {
        self.word() >= 0x8000_0000
    }
    /// True with probability num/den; shrinks towards false.
    pub fn prob(&mut self, num: u64, den: u64) -> bool {
        self.below(den) >= den - num
    }
    pub fn pick<'b, T>(&mut self, items: &'b [T]) -> &'b T {
        &items[self.below(items.len() as u64) as usize]
    }
    pub fn index(&mut self, len: usize) -> usize {
        self.below(len as u64) as usize
    }
    /// Weighted index; earlier entries are "simpler".
    pub fn weighted(&mut self, weights: &[u32]) -> usize {
        let total: u64 = weights.iter().map(|w| *w as u64).sum();
        let mut k = self.below(total);
        for (i, w) in weights.iter().enumerate() {
            if k < *w as u64 {
                return i;
            }
            k -= *w as u64;
        }
        weights.len() - 1
    }
    /// Fisher-Yates shuffle; all-zero words give the identity permutation.
    pub fn shuffle<T>(&mut self, v: &mut [T]) {
        let n = v.len();
        for i in 0..n.saturating_sub(1) {
            let j = i + self.below((n - i) as u64) as usize;
            v.swap(i, j);
        }
    }
}
