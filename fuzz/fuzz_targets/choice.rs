//! Thorough tier, all properties with an in-process proptest sub-check: the same case function
//! (generator + oracle) the harness explores with proptest, driven coverage-guided. The input
//! bytes are the choice sequence (little-endian 32-bit words) the generators draw from, so every
//! input is a valid case; the oracle's verdict `Err` (or a panic of the code under test) is the
//! crash. VERIF_FUZZ_PROP / VERIF_FUZZ_SUB select the case function.
#![no_main]
use harness::engine::{CaseFn, Ctx, Src};
use libfuzzer_sys::fuzz_target;
use std::sync::OnceLock;

static CASE: OnceLock<Box<CaseFn<'static>>> = OnceLock::new();

fuzz_target!(|data: &[u8]| {
    let f = CASE.get_or_init(|| {
        let p = std::env::var("VERIF_FUZZ_PROP").expect("VERIF_FUZZ_PROP");
        let s = std::env::var("VERIF_FUZZ_SUB").expect("VERIF_FUZZ_SUB");
        harness::props::lookup_case(&p, &s).expect("unknown case function")
    });
    let words: Vec<u32> = data
        .chunks(4)
        .map(|c| {
            let mut b = [0u8; 4];
            b[..c.len()].copy_from_slice(c);
            u32::from_le_bytes(b)
        })
        .collect();
    let mut src = Src::new(&words);
    let mut ctx = Ctx::new(false);
    if let Err(m) = f(&mut src, &mut ctx) {
        panic!("property violated: {}", m);
    }
});
