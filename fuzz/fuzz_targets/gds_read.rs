//! C10 (thorough tier): coverage-guided bytes into the GDSII reader. The semantic oracle sits in
//! the target: the call returns (a panic is a crash), and any library returned re-writes and
//! re-reads to itself.
#![no_main]
use libfuzzer_sys::fuzz_target;

fuzz_target!(|data: &[u8]| {
    if let Ok(lib) = gds21::GdsLibrary::from_bytes(data) {
        let mut out = Vec::new();
        lib.write(&mut out).expect("library returned by the reader cannot be written again");
        let back = gds21::GdsLibrary::from_bytes(&out).expect("re-written library does not read back");
        assert!(back == lib, "re-written library reads back differently");
    }
});
