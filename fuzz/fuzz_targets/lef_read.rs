//! C11 (thorough tier): coverage-guided UTF-8 into the LEF reader (through a scratch file, the
//! reader's only public entry point). Oracle: the call returns; an Ok library can be written and
//! read again without a crash.
#![no_main]
use libfuzzer_sys::fuzz_target;

fuzz_target!(|data: &[u8]| {
    let txt = match std::str::from_utf8(data) {
        Ok(t) => t,
        Err(_) => return,
    };
    let dir = if std::path::Path::new("/dev/shm").is_dir() { "/dev/shm" } else { "/tmp" };
    let path = format!("{}/verif-fuzz-lef-{}.lef", dir, std::process::id());
    std::fs::write(&path, txt).unwrap();
    let r = lef21::LefLibrary::open(&path);
    if let Ok(lib) = r {
        if let Ok(s) = lib.to_string() {
            std::fs::write(&path, s).unwrap();
            let _ = lef21::LefLibrary::open(&path);
        }
    }
    let _ = std::fs::remove_file(&path);
});
