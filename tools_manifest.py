#!/usr/bin/env python3
"""Regenerates MANIFEST.json from the table below (keeps it valid at all times)."""
import json, sys
CHECKS = {
 "C15": dict(level="exploration", design="4/C15",
   text="Exhaustive over every power-of-two neighbourhood (+-16 ulp) in range and every 1-/2-bit mantissa at every exponent, plus seeded random doubles and normalised reals (ties, 54-56 significant bits), all compared bit-for-bit with an exact integer model of the 8-byte real; reals also checked inside written UNITS/MAG/ANGLE records.",
   note="Trusted base: the integer reference model harness/src/refmodel/gdsreal.rs; random part bounded by the case counts in evidence.",
   technique="property-based testing: exhaustive enumeration + proptest-driven random search against an exact reference codec (differential oracle)"),
}
NOT_YET = {}
ALL = ["C%02d" % i for i in range(1, 21)]
def main():
    checks = []
    for pid in ALL:
        if pid not in CHECKS: continue
        c = CHECKS[pid]
        checks.append({
            "property_id": pid,
            "quick_cmd": "./check %s --tier quick" % pid,
            "thorough_cmd": "./check %s --tier thorough" % pid,
            "evidence_file": "/verif/evidence/%s.json" % pid,
            "replay_cmd_template": "./check %s --replay {path}" % pid,
            "engine": "harness",
            "level_claimed": {"category": c["level"], "text": c["text"], "design_ref": "DESIGN.md section " + c["design"]},
            "level_note": c["note"],
            "technique": c["technique"],
        })
    na = [{"property_id": p, "reason": NOT_YET.get(p, "check not built yet in this revision of /verif (work in progress; planned, see DESIGN.md section 4)")} for p in ALL if p not in CHECKS]
    m = {
      "version": 1,
      "setup_cmd": "cd /verif/harness && CARGO_NET_OFFLINE=true cargo build --release --offline",
      "hooks": {
        "guard": "layout21_verif",
        "enable": "none needed: every entry point the properties name is public; the harness links /repo's crates by path and rebuilds them from the working tree on every check",
        "baseline_off_cmd": "cd /repo && cargo test --workspace --no-fail-fast --offline",
        "source_commits": [],
        "add_only": True
      },
      "engines": [
        {"name": "harness", "path": "/verif/harness", "serves_properties": sorted(CHECKS), "kind_free_text": "Rust binary: proptest 1.11 TestRunner over choice sequences (seeded by VERIF_SEED, shrinking, replay files), exhaustive enumerators for finite sub-spaces, independent reference models as oracles, child-process isolation for aborting cases"},
      ],
      "checks": checks,
      "notes": "Driver: ./check <Cxx> [--tier quick|thorough] [--replay FILE]. Exit 0 held / 1 VIOLATION / 2 inconclusive or build failure. Known findings: /verif/known_findings.json.",
      "not_applicable": na,
    }
    json.dump(m, open("/verif/MANIFEST.json", "w"), indent=1)
    print("wrote MANIFEST.json with", len(checks), "checks")
main()
