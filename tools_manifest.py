#!/usr/bin/env python3
"""Regenerates MANIFEST.json from the table below (keeps it valid at all times)."""
import json, sys
CHECKS = {
 "C20": dict(level="exploration", design="4/C20",
   text="Metamorphic determinism check over the inputs of C06/C07/C08/C14/C16 (GDSII hierarchies, raw libraries with multi-layer abstract ports/blockages, LEF libraries with several layers per pin and repeated macro names, gridded cells with abstract views and raw-defined cells; also Layer objects sharing a number, shorted nets, nameless libraries): each input description is materialised 6 times in one process (fresh hash maps, hence fresh per-map hash keys) and in 3 separate child processes (fresh per-process keys), converted (GDSII->raw, raw->GDSII, raw->protobuf incl. libraries of 64-100 cells of very different sizes, protobuf->raw->protobuf incl. messages defining a cell name twice, LEF->raw->LEF, gridded->raw->GDSII/protobuf; every conversion also twice more than a second apart) and rendered to a transcript preserving every sequence order (GDSII timestamps masked); all transcripts must be identical.",
   note="Hash seeds cannot be chosen, so detection is probabilistic per input (>= 1 - 2^-5 for a two-key map in-process) but effectively certain over hundreds of inputs; a deterministic tree can never fail the check.",
   technique="property-based testing with a metamorphic oracle (repeated materialisation in-process and across child processes)"),

 "C08": dict(level="exploration", design="4/C08",
   text="Seeded proptest search over a family of layer stacks (1-4 metals alternating direction, rails/signals/gaps written flat or with Repeat groups, offsets, overlapping rails, with/without every-other-period flipping, palindromic and asymmetric patterns, pitch 1-3 primitive pitches) via layers listed in any order) crossed with well-formed cells (outlines of whole periods, cuts and assignments at in-range crossings, leaf instances incl. zero-metal cells in all four reflections aligned to periods; 1 in 12 outlines deliberately not whole periods: error required; a third sub-check issues cut requests over the outline edge, over each other or on a stretch an instance blocks: refused or realised, never ignored; a fourth gives leaf cells abstract views with edge ports, also on layers that have rails only: an error or one rectangle per port, never a crash). Assignments may sit on crossings over an instance (the via is drawn, the blocked track carries no wire there). Oracle R-tracks computed from the stack description alone: per layer and track the wire pieces, requested cuts and true instance extents tile [0, span] exactly, nothing else on the layer; one via of the stack's size centred on each assigned crossing carrying the net; nets on exactly the covering pieces; rails VDD/VSS.",
   note="Non-rectangular outlines, odd widths/cut/via sizes, instances not aligned to whole periods and abstract ports are not generated. Tracks are numbered in the order their period lists them.",
   technique="property-based testing against an independent track/segment reference model (tiling validity predicate)"),

 "C09": dict(level="exploration", design="4/C09",
   text="The single-relation table (4 sides x 2 orthogonal alignments x 4 x 4 reflections x 3 separation kinds = 384) exhaustively; seeded proptest search over placement programs of 1-25 instances (chains and trees over rectangular and two-step outlines, relabelled and shuffled, each placed in two listing orders; some instances handed over through Layout::places; the program cell listed, listed after its user, or reachable only through an instance; a twin cell with shifted roots in the same library must be placed identically), cyclic programs and cells that contain an instance of themselves - directly or through a unit cell, in `instances` or among the objects awaiting placement (must be errors, never a deadlock; literal regression for ab62e2a) - programs whose instances are unnamed or share names (sub-check same-names), separations at the top of the integer range whose result is still representable (sub-check extreme-separations, decided in 128-bit arithmetic), and absolute array instances (unit cells listed, or reached through arrays nested up to three deep only and holding a relative pair of their own that must come out placed) (count 1-6, pitch in x/y, both reflections, nesting depth <= 3). Oracle: bounding-box model of the relation computed from (location, cell size, reflections), required to equal Instance::boundbox(); reference expansion for arrays.",
   note="Non-orthogonal side/alignment pairs, Center/Ports alignment, placement relative to arrays/groups, relative array placement are unimplemented in the code and outside the quantifier.",
   technique="exhaustive table + property-based testing against a reference placement model; order-independence as a metamorphic relation"),
 "C19": dict(level="exploration", design="4/C19",
   text="Seeded proptest search over placed gridded-layout libraries (cell DAGs in shuffled order, stepped outlines with ties, 0-5 metals, instances with all four reflection combinations, arbitrary assignments and cuts, port-less abstracts): export lists cells after the cells they instantiate, import succeeds and every field is equal. The exported message with one of 22 faults (each mandatory sub-message removed, an outline without steps or with lists of unequal length, undefined/external reference, an instantiated cell removed, cells listed users first, all leaf cells removed, relative placement, non-monotone outline, negative track) must be an error, never a crash. A third sub-check (`roundtrip-large`) exports and re-imports towers of 24-150 cells (levels sharing leaves, listed bottom-up, top-down or shuffled); export called twice on one library must give one message.",
   note="Abstract ports are not generated (import is todo!() and outside the statement's field list).",
   technique="property-based testing: export/import round-trip oracle + fault injection into the exported message"),

 "C14": dict(level="exploration", design="4/C14",
   text="Seeded proptest search in both directions. (->) raw libraries incl. abstract views, cells in shuffled listing order, eight instance orientations, all shape kinds, nets, annotations: to_proto must list every cell after the cells it instantiates, from_proto must succeed and name, units, views, shapes (multisets per layer/purpose number), instances (name, target, location, reflection, rotation), annotations, ports and blockages must be equal. (<-) generated protobuf messages in the supported subset with a matching Layers table: from_proto then to_proto must equal the message (port/blockage layer lists as multisets). A third sub-check runs the (->) direction on chains of 30-200 nested cells with shared leaves; to_proto called twice on one library must give one message.",
   note="Units::Pico is outside the schema; order of map-derived lists is C20's subject.",
   technique="property-based testing: round-trip oracle in both directions plus a dependency-order validity predicate"),

 "C18": dict(level="exploration", design="4/C18",
   text="Seeded proptest search over GDSII and LEF library values whose string fields are replaced by strings built from JSON/YAML-special characters and whose doubles span the GDSII range, crossed with {JSON, YAML} x {to_string/from_str, save/open in all three spellings (format method, SerdeFile, free function) on plain, dot and extension file names}; GDSII file -> to_markup -> from_markup -> GDSII bytes (quiet and chatty modes, unset time stamps); histories of several saves to one path; sweeps of 16 doubles per case. 200 KB files made of multi-byte characters at every alignment, through every API spelling and both formats. Oracle: loaded value equal to the original with doubles compared by bit pattern, decimals by value; bytes identical.",
   note="TOML not in the property. The harness adds no serde_json/rust_decimal/serde_yaml feature beyond the repository's own.",
   technique="property-based testing: serialise/deserialise round-trip oracle with bit-exact comparison"),

 "C11": dict(level="fault_enumeration", design="4/C11",
   text="Exhaustive fault enumeration over 40 rendered LEF texts (with and without lexical variation / non-ASCII comments) and the repository's macro.lef: every prefix at every character boundary, every single-token fault (delete, duplicate, swap, replace by some 70 keywords, numbers, literals and names incl. the extremes of the 96-bit decimal type/punctuation/unterminated string) at every token; floods of 50 000 copies of a token or phrase read on a 2 MB stack; every BUSBITCHARS / DIVIDERCHAR declaration (ordinary, reversed, doubled, multi-byte, empty) against every pin-name shape, the statement before or after the macro (748 texts, sub-check header-statements); a dozen rarely used statements (DENSITY, PROPERTYDEFINITIONS of every object type, antenna and port attributes, generated vias, sites, units), whole and with every single token dropped or doubled (sub-check rare-statements); proptest-driven insertion of multi-byte, odd-whitespace (VT, NEL, NBSP, EM SPACE, BOM, NUL) and delimiter characters anywhere; token soup with arbitrary Unicode scalars. Oracle: LefLibrary::open returns, also on its error-report path (panics caught in-process, aborts/hangs by the supervising process with CPU limit); an Ok library can be written and re-read without a crash; allocation at most doubles when the input doubles.",
   note="Termination = returns before the 30 s in-flight watchdog / 20 s CPU in isolation; linear time checked on allocation volume and on thread CPU time (n vs 16n).",
   technique="fault enumeration + property-based mutation; crash/hang oracle via supervised child processes"),
 "C16": dict(level="exploration", design="4/C16",
   text="Seeded proptest search over LEF libraries (1-5 macros, SIZE, pins with 1-3 ports, obstruction blocks, rectangles/polygons/paths with LAYER WIDTH, recurring layer names, coordinates with 0-4 significant decimals written with 0-6 decimals, negatives, x != y), 1 in 4 through rendered text and the reader: LefImporter::import must give one abstract cell per macro with outline (0,0),(X,0),(X,Y),(0,Y) and, per pin and for the obstructions, the LEF shapes grouped by layer name in order, every coordinate equal to value x 10000 computed on (mantissa, scale) integers; a coordinate with a non-zero digit beyond the fourth decimal must be an error.",
   note="The importer's raw unit is the angstrom as documented; EXCEPTPGNET / non-zero SPACING / DESIGNRULEWIDTH / ITERATE / case-insensitive names are documented unsupported (error accepted).",
   technique="property-based testing against an exact decimal-scaling reference model"),

 "C04": dict(level="exploration", design="4/C04",
   text="Seeded proptest search over LEF library values covering every supported statement, each rendered three times by an independent LEF renderer with random statement order (order within lists preserved), whitespace/newlines, ASCII and non-ASCII comments, keyword case and number spellings (trailing zeros, leading dot, redundant .0), versions 5.3-5.8, with/without END LIBRARY; LefLibrary::open must return exactly the value. Negative variants (END LIBRARY missing below 5.6, NAMESCASESENSITIVE / SOURCE above 5.4) must be errors.",
   note="Trusted base: the renderer harness/src/gen/lef.rs as the reading of the LEF syntax. Tokens whitespace-separated; names start with an ASCII letter and are not keywords; no '+'/exponent numbers; VERSION first.",
   technique="property-based testing: differential oracle, independent renderer -> reader under test, with metamorphic lexical variation"),
 "C05": dict(level="exploration", design="4/C05",
   text="Domain = the image of the reader: every library obtained by reading rendered G-lef texts (all constructs, versions 5.3-5.8) plus each version-gated statement under each version (exhaustive 6x3), three dozen statements the reader refuses today or accepts in part under each version (whatever it accepts the writer must carry) and hand-written texts; to_string()/save() must succeed and the written text must read back to an equal library.",
   note="Layout of the written text is free. The lefrw binary is built from /repo's working tree into the harness target directory and run on 400 (quick) generated files; its output must read back equal.",
   technique="property-based testing: write/read round-trip oracle over the reader's image"),

 "C06": dict(level="exploration", design="4/C06",
   text="Seeded proptest search over hierarchical GDSII libraries (1-5 structs in shuffled order; rectangles cw/ccw, histogram/45-degree/star/near-rectangle/small-grid polygons, boxes, paths; SREFs in all eight orientations; AREFs with literal axis-parallel, rotated and skewed lattices up to 300x300; labels on vertices, edges, inside, outside, other layers, mixed case). Oracle: an independent flattener under GDSII semantics (reflect, rotate ccw, translate; lattice expansion) and exact point-in-shape decide per cell the shapes with nets, the annotations and the flattened multiset per (layer, datatype). Malformed hierarchies (dangling, cyclic, self reference, zero rows/cols, empty boundary) must be errors.",
   note="An import error on a well-formed library is allowed by the statement (counted as refused). MAG != 1, absolute flags and nodes are not generated. Two labels of different names inside one shape are generated in the sub-check shorted-labels only, where which of the names the shape takes is left open (it must be one of them, and none of those labels may survive as an annotation).",
   technique="property-based testing against an independent reference flattener and exact geometry (differential oracle)"),
 "C07": dict(level="exploration", design="4/C07",
   text="Seeded proptest search over raw layout libraries (cell DAGs in shuffled order, eight instance orientations, rectangles, U/L/histogram/45-degree/star/trapezoid polygons, Manhattan paths, nets, many layers/purposes incl. purposes sharing a number, abstract views beside layouts, empty cells, all four units): export to GDSII must succeed (the documented label-search refusal is accepted only when none of its candidates lies inside the polygon), exported paths keep exactly their points and every emitted label lies in its shape (exact geometry on the GDSII itself), and re-import gives per cell the same multisets of shapes (layer number, purpose number, points, width, lower-cased net) and instances (target, location, reflection, angle) and the same units; a second sub-check does the same on chains of 30-200 nested cells (with leaves shared between neighbouring levels) listed top-down, bottom-up or shuffled. Every main sub-check also runs as a `-fresh-thread` twin (each case in a newly spawned thread).",
   note="Cell order, rectangle corner order, rectangle-shaped polygons, None vs Some(0) angle, annotations and instance names are not compared; 'No valid label location' for a non-rectilinear named polygon is the documented refusal.",
   technique="property-based testing: export/import round-trip oracle plus exact-geometry validity predicates on the exported GDSII"),

 "C17": dict(level="exploration", design="4/C17",
   text="Generic helper: every digraph on 1-4 nodes incl. self-loops x every listing order x every non-empty start subset (exhaustive, 23.6 M orderings), every 5-node digraph without self-loops x 8 listing orders (exhaustive in thorough, 800 k sampled in quick), random graphs to 300 nodes incl. depth-300 chains. Embedded orderers through their public callers (raw::DepOrder::order, Library::from_gds, tetris Library::dep_order, tetris ProtoExporter::export, Placer::place over relative placements and over the cell graph) on random DAGs and cyclic graphs up to 200 nodes, with repeated children, layout-less leaf cells and cells with both views. Oracle: graph model - reachable set, Kahn cycle test, validity predicate accepting any topological order; cyclic => error required.",
   note="Unbounded recursion is observed as the death of the checking process (re-run in isolation by the supervisor).",
   technique="exhaustive enumeration of small digraphs + property-based testing against a graph reference model (validity predicate)"),

 "C12": dict(level="exploration", design="4/C12",
   text="Exhaustive over placement chains of depth 1-3 (depth 4 in thorough) on the eight right-angle orientations x 7 offsets per level, every point of a 9x9 grid: Transform::from_instance / cascade / Point::transform must equal the exact integer composition reflect->rotate ccw->translate, and (depth 1) the cascade of the library's own elementary transforms; random chains with large offsets; random cell hierarchies through Layout::flatten compared as multisets with the model composition; general angles against real arithmetic within 0.5.",
   note="Trusted base: integer orientation matrices in harness/src/refmodel/geom.rs.",
   technique="exhaustive enumeration + property-based testing against an exact integer reference model; differential against the library's elementary transforms"),
 "C13": dict(level="exploration", design="4/C13",
   text="Exhaustive: all rectangles on a 6x6 grid x all surrounding points; all simple polygons with 3-4 vertices on a 5x5 grid (3-5 in thorough; 4x4 with 5 vertices in quick) incl. collinear/repeated vertices, both orientations, all start vertices, x every surrounding grid point. Random rectilinear (L/U/T histogram), 45-degree and star-shaped polygons queried over their bounding box and at every vertex height; outlines of 60-520 vertices; convex polygons with coordinates to 2^30 queried at the lattice points nearest their edges; Manhattan paths queried over their neighbourhood and judged by zone. Oracle: exact closed-region membership (integer cross products).",
   note="Path end caps and the corner squares outside the joint disc are not asserted (statement ambiguous there).",
   technique="exhaustive enumeration + property-based testing against an exact integer geometry kernel"),

 "C01": dict(level="exploration", design="4/C01",
   text="Seeded proptest search over constructed GDSII library values (all seven element kinds, every optional-field subset, empty/odd/non-ASCII strings, full-range coordinates, reals over the whole representable range incl. exponent byte 0, legal records around 32 KB and just below the 16-bit limit, records beyond it): write, read back, compare field for field; 1 in 16 through save/open over an older longer file, 1 in 8 through a writer that accepts a few bytes per call; hand-written boundary libraries as regression inputs.",
   note="Round-trip oracle (inverse); symmetric reader/writer errors are C02/C03's business. Strings without NUL; reals within the format's range.",
   technique="property-based testing (proptest over choice sequences, shrinking): write/read round-trip oracle"),
 "C02": dict(level="exploration", design="4/C02",
   text="Same generated libraries; the written bytes are decoded by an independent strict GDSII decoder written from the specification (record numbering, data types, fixed payload sizes, BNF order, big-endian, normalised exact reals, STRANS bits, NUL padding, ENDLIB last) and the decoded content must equal the generated model; 1 in 16 libraries also through save() over an older longer file, whose content must be exactly the stream.",
   note="Trusted base: harness/src/refmodel/gdsspec.rs and gdsreal.rs as the reading of the Calma specification.",
   technique="property-based testing: differential oracle against an independent specification decoder"),
 "C03": dict(level="exploration", design="4/C03",
   text="Streams produced by an independent reference encoder from generated models (all element kinds, optional-record subsets in spec order, padded/unpadded strings, arbitrary dates, trailing zero padding or arbitrary bytes after ENDLIB) must be read to exactly the model; streams with one unsupported library-level record must be rejected.",
   note="Trusted base: the reference encoder in harness/src/refmodel/gdsspec.rs. Conformant = records in BNF order.",
   technique="property-based testing: differential oracle, reference encoder -> reader under test"),
 "C10": dict(level="fault_enumeration", design="4/C10",
   text="Exhaustive fault enumeration over 30 generated and 3 repository streams: every truncation point (must be rejected before ENDLIB), every single-record fault (length/type/datatype rewrites, empty payload, delete/duplicate/swap/splice) at every record, a well-formed record of each of the 64 record types x 15 payload shapes inserted at every record boundary, floods of 100 000 copies of such a record read on a 2 MB stack, a stream with a 32 KB record, streams whose one remarkable record is as long as the format allows (names, strings and property values of 65530/65529/65528 bytes, paths of 8191/8190/8189 points: read, written again, read again), extreme and unnormalised reals, streams whose records grow and shrink in size, a stream with every optional record on every element kind, hierarchies of 8-64 levels each placing the next 2-4 times (a few kilobytes, astronomically many paths), plus proptest-driven byte mutations and noise. Oracle: the call returns (panics caught in-process; aborts, spinning and blocked calls caught by a supervising process with CPU limit and idle detection), a truncated stream is never accepted, and any returned library re-writes and re-reads to itself; allocation volume at most doubles when the input doubles and thread CPU time grows at most 64-fold for a 16-fold input (five stream shapes, repeated up to three times before it counts).",
   note="Termination = returns before the hang watchdog / 60 s CPU; linear time checked on allocation volume and on thread CPU time (n vs 16n). Repository files are faulted at every 9th record in the quick tier, every record in thorough.",
   technique="fault enumeration + property-based byte mutation; crash/hang oracle via supervised child processes; re-write round-trip oracle"),

 "C15": dict(level="exploration", design="4/C15",
   text="Exhaustive over every power-of-two neighbourhood (+-16 ulp) in range and every 1-/2-bit mantissa at every exponent, plus seeded random doubles and normalised reals (ties, 54-56 significant bits), all compared bit-for-bit with an exact integer model of the 8-byte real; reals also checked inside written UNITS/MAG/ANGLE records (on structure references, array references and texts; either record optional; streams of 10-40 transforms drawn from a small pool of reals, so that values recur after others were decoded).",
   note="Trusted base: the integer reference model harness/src/refmodel/gdsreal.rs; random part bounded by the case counts in evidence.",
   technique="property-based testing: exhaustive enumeration + proptest-driven random search against an exact reference codec (differential oracle)"),
}
NOT_YET = {}
# properties whose proptest sub-checks are also driven by libFuzzer in the thorough tier (harness/src/props/mod.rs: fuzz_plan)
FUZZED = {"C01","C02","C03","C04","C05","C06","C07","C08","C09","C12","C13","C14","C15","C16","C17","C18","C19","C20"}
ALL = ["C%02d" % i for i in range(1, 21)]
def main():
    checks = []
    for pid in ALL:
        if pid not in CHECKS: continue
        c = CHECKS[pid]
        checks.append({
            "property_id": pid,
            "quick_cmd": "./check %s --tier quick" % pid,
            "thorough_cmd": "./check %s --tier thorough" % pid,
            "evidence_file": "/verif/evidence/%s.json" % pid,
            "replay_cmd_template": "./check %s --replay {path}" % pid,
            "engine": "harness",
            "level_claimed": {"category": c["level"], "text": c["text"], "design_ref": "DESIGN.md section " + c["design"]},
            "level_note": c["note"],
            "technique": c["technique"] + ("; thorough tier adds coverage-guided fuzzing (libFuzzer over the choice sequence of the same generators and oracles, failures minimised and replayed through the harness)" if pid in FUZZED else "") + ("; thorough tier adds a libFuzzer campaign over raw input bytes with the same oracle" if pid in ("C10", "C11") else ""),
        })
    na = [{"property_id": p, "reason": NOT_YET.get(p, "check not built yet in this revision of /verif (work in progress; planned, see DESIGN.md section 4)")} for p in ALL if p not in CHECKS]
    m = {
      "version": 1,
      "setup_cmd": "cd /verif/harness && CARGO_NET_OFFLINE=true cargo build --release --offline && CARGO_NET_OFFLINE=true cargo build --release --offline --manifest-path /repo/Cargo.toml -p lef21 --bin lefrw --target-dir /verif/harness/target/repo-bins",
      "hooks": {
        "guard": "layout21_verif",
        "enable": "none needed: every entry point the properties name is public; the harness links /repo's crates by path and rebuilds them from the working tree on every check",
        "baseline_off_cmd": "cd /repo && cargo test --workspace --no-fail-fast --offline",
        "source_commits": [],
        "add_only": True
      },
      "engines": [
        {"name": "harness", "path": "/verif/harness", "serves_properties": sorted(CHECKS), "kind_free_text": "Rust binary: proptest 1.11 TestRunner over choice sequences (seeded by VERIF_SEED, shrinking, replay files), exhaustive enumerators for finite sub-spaces, independent reference models as oracles, child-process isolation for aborting cases"},
        {"name": "fuzz", "path": "/verif/fuzz", "serves_properties": sorted(FUZZED | {"C10", "C11"}), "kind_free_text": "cargo-fuzz / libFuzzer targets used by the thorough tier: `choice` drives the harness's case functions (generator + oracle) with the fuzzer's bytes as the choice sequence, 8 processes per sub-check; `gds_read` / `lef_read` feed raw bytes to the two readers with the C10 / C11 oracle in the target"},
      ],
      "checks": checks,
      "notes": "Driver: ./check <Cxx> [--tier quick|thorough] [--replay FILE]. Exit 0 held / 1 VIOLATION / 2 inconclusive or build failure. Known findings: /verif/known_findings.json.",
      "not_applicable": na,
    }
    json.dump(m, open("/verif/MANIFEST.json", "w"), indent=1)
    print("wrote MANIFEST.json with", len(checks), "checks")
main()
