#!/bin/bash
# usage: run_all.sh <tier> <seed...>   — runs every check, prints one line per check
tier=$1; shift
for seed in "$@"; do
  for i in $(seq -w 1 20); do
    p=C$i
    t0=$(date +%s.%N)
    out=$(VERIF_SEED=$seed ./check $p --tier $tier 2>/dev/null); code=$?
    t1=$(date +%s.%N)
    printf "seed=%s %s exit=%s %.1fs %s\n" "$seed" "$p" "$code" "$(echo "$t1 - $t0" | bc)" "$(echo "$out" | grep -E '^(OK|VIOLATION|INCONCLUSIVE|KNOWN)' | head -2 | tr '\n' ' ' | cut -c1-150)"
  done
done
